"""Schedule driver S.

A step is [opname, k1, k2, k3] of small ints.  It is resolved against the *live*
procedure: the op's enumerator lists the syntactically eligible sites with its own
traversal of the LoopIR, k1 picks one (mod n), k2/k3 pick parameters.  All randomness is
therefore in Hypothesis; sequences shrink by deleting steps and moving ints to 0.
"""
from __future__ import annotations

import traceback

from exo.core.LoopIR import LoopIR, T
from exo.API_cursors import lift_cursor
import exo.stdlib.scheduling as S

from .common import rejection_types

NAME_POOL = ["io", "ii", "i", "j", "a", "a_1", "t", "k0", "tmp"]

# --------------------------------------------------------------------------- #
# sites


class Site:
    __slots__ = ("path", "node", "kind", "scope", "parent_kind", "pos", "nsib", "encl")

    def __init__(self, path, node, kind, scope, parent_kind, pos, nsib, encl):
        self.path, self.node, self.kind, self.scope = path, node, kind, scope
        self.parent_kind, self.pos, self.nsib, self.encl = parent_kind, pos, nsib, encl


def collect(ir):
    """-> (stmt sites, expr sites).  scope = list of (name, 'iter'|'size'|'index'|'bool')"""
    stmts, exprs = [], []
    scope0 = []
    for a in ir.args:
        if isinstance(a.type, T.Size):
            scope0.append((str(a.name), "size"))
        elif isinstance(a.type, T.Index):
            scope0.append((str(a.name), "index"))
        elif isinstance(a.type, T.Bool):
            scope0.append((str(a.name), "bool"))

    def walk_e(e, path, scope, role):
        exprs.append(Site(path, e, type(e).__name__, scope, role, 0, 0, None))
        if isinstance(e, LoopIR.BinOp):
            walk_e(e.lhs, path + [("lhs", None)], scope, role)
            walk_e(e.rhs, path + [("rhs", None)], scope, role)
        elif isinstance(e, LoopIR.USub):
            walk_e(e.arg, path + [("arg", None)], scope, role)
        elif isinstance(e, LoopIR.Read):
            for i, x in enumerate(e.idx):
                walk_e(x, path + [("idx", i)], scope, "index")
        elif isinstance(e, LoopIR.Extern):
            for i, x in enumerate(e.args):
                walk_e(x, path + [("args", i)], scope, role)
        elif isinstance(e, LoopIR.WindowExpr):
            for i, w in enumerate(e.idx):
                if isinstance(w, LoopIR.Interval):
                    walk_e(w.lo, path + [("idx", i), ("lo", None)], scope, "index")
                    walk_e(w.hi, path + [("idx", i), ("hi", None)], scope, "index")
                else:
                    walk_e(w.pt, path + [("idx", i), ("pt", None)], scope, "index")

    def walk(block, path, attr, scope, pk, encl):
        for i, s in enumerate(block):
            p = path + [(attr, i)]
            k = type(s).__name__
            stmts.append(Site(p, s, k, scope, pk, i, len(block), encl))
            if isinstance(s, (LoopIR.Assign, LoopIR.Reduce)):
                for j, x in enumerate(s.idx):
                    walk_e(x, p + [("idx", j)], scope, "index")
                walk_e(s.rhs, p + [("rhs", None)], scope, "data")
            elif isinstance(s, LoopIR.For):
                walk_e(s.lo, p + [("lo", None)], scope, "index")
                walk_e(s.hi, p + [("hi", None)], scope, "index")
                walk(s.body, p, "body", scope + [(str(s.iter), "iter")], "For", stmts[-1])
            elif isinstance(s, LoopIR.If):
                walk_e(s.cond, p + [("cond", None)], scope, "cond")
                me = stmts[-1]
                walk(s.body, p, "body", scope, "If", me)
                walk(s.orelse, p, "orelse", scope, "If", me)
            elif isinstance(s, (LoopIR.WindowStmt, LoopIR.WriteConfig)):
                walk_e(s.rhs, p + [("rhs", None)], scope, "window" if isinstance(s, LoopIR.WindowStmt) else "config")
            elif isinstance(s, LoopIR.Call):
                for j, x in enumerate(s.args):
                    walk_e(x, p + [("args", j)], scope, "callarg")

    walk(ir.body, [], "body", scope0, "proc", None)
    return stmts, exprs


def cursor_at(p, path):
    c = p._root()
    for attr, i in path:
        c = c._child_node(attr, i)
    return lift_cursor(c, p)


def path_str(path):
    return "/".join(f"{a}{'' if i is None else i}" for a, i in path)


# --------------------------------------------------------------------------- #
# op catalogue.  Each resolver: (p, ir, stmts, exprs, k1, k2, k3, ctx) -> (thunk, desc) | None


def _pick(xs, k):
    return xs[k % len(xs)] if xs else None


def _loops(stmts):
    return [s for s in stmts if s.kind == "For"]


def _allocs(stmts):
    return [s for s in stmts if s.kind == "Alloc"]


def _scope_names(site, kinds=("iter", "size", "index")):
    return [n for n, k in site.scope if k in kinds]


def _idx_exprs(site, k):
    """a few expression strings over the variables in scope"""
    names = _scope_names(site)
    pool = ["0", "1", "2", "4"] + names + [f"{n} + 1" for n in names] + [f"{n} / 2" for n in names[:2]]
    return pool[k % len(pool)]


OPS = {}


def op(name, weight=3, unsafe=False, group="core"):
    def deco(f):
        OPS[name] = {"name": name, "resolve": f, "weight": weight, "unsafe": unsafe, "group": group}
        return f

    return deco


@op("simplify", 4)
def _(p, ir, st_, ex, k1, k2, k3, ctx):
    return (lambda: S.simplify(p)), {}


@op("delete_pass", 1)
def _(p, ir, st_, ex, k1, k2, k3, ctx):
    return (lambda: S.delete_pass(p)), {}


@op("rename", 1)
def _(p, ir, st_, ex, k1, k2, k3, ctx):
    nm = f"{ir.name}_r{ctx.fresh()}"
    return (lambda: S.rename(p, nm)), {"name": nm}


@op("make_instr", 1)
def _(p, ir, st_, ex, k1, k2, k3, ctx):
    return (lambda: S.make_instr(p, f"/* instr {k1} */", "")), {"k": k1}


@op("insert_pass", 1)
def _(p, ir, st_, ex, k1, k2, k3, ctx):
    s = _pick(st_, k1)
    if not s:
        return None
    c = cursor_at(p, s.path)
    g = c.before() if k2 % 2 == 0 else c.after()
    return (lambda: S.insert_pass(p, g)), {"at": path_str(s.path), "side": k2 % 2}


def _pairs(st_, pred=lambda a, b: True):
    out = []
    for i, s in enumerate(st_):
        if s.pos + 1 < s.nsib:
            # the next sibling is the next site with same parent path and pos+1
            nxt = next((t for t in st_[i + 1 :] if t.path[:-1] == s.path[:-1] and t.path[-1] == (s.path[-1][0], s.pos + 1)), None)
            if nxt is not None and pred(s, nxt):
                out.append((s, nxt))
    return out


@op("reorder_stmts", 5)
def _(p, ir, st_, ex, k1, k2, k3, ctx):
    pr = _pick(_pairs(st_), k1)
    if not pr:
        return None
    c = cursor_at(p, pr[0].path).expand(0, 1)
    return (lambda: S.reorder_stmts(p, c)), {"at": path_str(pr[0].path)}


@op("merge_writes", 3)
def _(p, ir, st_, ex, k1, k2, k3, ctx):
    pr = _pick(_pairs(st_, lambda a, b: a.kind in ("Assign", "Reduce") and b.kind in ("Assign", "Reduce")), k1)
    if not pr:
        return None
    c = cursor_at(p, pr[0].path).expand(0, 1)
    return (lambda: S.merge_writes(p, c)), {"at": path_str(pr[0].path)}


@op("lift_reduce_constant", 2)
def _(p, ir, st_, ex, k1, k2, k3, ctx):
    pr = _pick(_pairs(st_, lambda a, b: a.kind == "Assign" and b.kind == "For"), k1)
    if not pr:
        return None
    c = cursor_at(p, pr[0].path).expand(0, 1)
    return (lambda: S.lift_reduce_constant(p, c)), {"at": path_str(pr[0].path)}


@op("commute_expr", 2)
def _(p, ir, st_, ex, k1, k2, k3, ctx):
    e = _pick([e for e in ex if e.kind == "BinOp" and e.node.op in ("+", "*", "-")], k1)
    if not e:
        return None
    c = cursor_at(p, e.path)
    return (lambda: S.commute_expr(p, [c])), {"at": path_str(e.path), "e": str(e.node)}


@op("left_reassociate_expr", 2)
def _(p, ir, st_, ex, k1, k2, k3, ctx):
    e = _pick([e for e in ex if e.kind == "BinOp" and e.node.op in ("+", "*") and isinstance(e.node.rhs, LoopIR.BinOp)], k1)
    if not e:
        e = _pick([e for e in ex if e.kind == "BinOp"], k1)
    if not e:
        return None
    c = cursor_at(p, e.path)
    return (lambda: S.left_reassociate_expr(p, c)), {"at": path_str(e.path), "e": str(e.node)}


@op("rewrite_expr", 2)
def _(p, ir, st_, ex, k1, k2, k3, ctx):
    e = _pick([e for e in ex if e.parent_kind == "index" and e.kind in ("BinOp", "Read") and not e.node.type.is_numeric()], k1)
    if not e:
        return None
    s = str(e.node)
    new = [f"({s}) + 0", f"0 + ({s})", f"({s}) * 1", f"({s}) + 1", f"({s}) - 1 + 1", f"2 * ({s}) - ({s})", f"({s}) / 1", f"({s}) % 4"][k2 % 8]
    c = cursor_at(p, e.path)
    return (lambda: S.rewrite_expr(p, c, new)), {"at": path_str(e.path), "old": s, "new": new}


@op("bind_expr", 3)
def _(p, ir, st_, ex, k1, k2, k3, ctx):
    e = _pick([e for e in ex if e.parent_kind == "data" and e.kind in ("BinOp", "Read", "Extern", "Const") and e.node.type.is_numeric()], k1)
    if not e:
        return None
    c = cursor_at(p, e.path)
    nm = NAME_POOL[k2 % len(NAME_POOL)]
    return (lambda: S.bind_expr(p, [c], nm)), {"at": path_str(e.path), "e": str(e.node), "name": nm}


@op("extract_subproc", 2)
def _(p, ir, st_, ex, k1, k2, k3, ctx):
    s = _pick(st_, k1)
    if not s:
        return None
    c = cursor_at(p, s.path)
    n = min(k2 % 2, s.nsib - s.pos - 1)
    blk = c.expand(0, n)
    nm = f"ext{ctx.fresh()}"
    return (lambda: S.extract_subproc(p, blk, nm)[0]), {"at": path_str(s.path), "len": n + 1}


@op("inline", 4)
def _(p, ir, st_, ex, k1, k2, k3, ctx):
    s = _pick([s for s in st_ if s.kind == "Call"], k1)
    if not s:
        return None
    c = cursor_at(p, s.path)
    return (lambda: S.inline(p, c)), {"at": path_str(s.path), "f": str(s.node.f.name)}


@op("inline_window", 3)
def _(p, ir, st_, ex, k1, k2, k3, ctx):
    s = _pick([s for s in st_ if s.kind == "WindowStmt"], k1)
    if not s:
        return None
    c = cursor_at(p, s.path)
    return (lambda: S.inline_window(p, c)), {"at": path_str(s.path)}


def _dim_strs(node):
    return [str(e) for e in node.type.shape()]


@op("resize_dim", 3, group="storage")
def _(p, ir, st_, ex, k1, k2, k3, ctx):
    s = _pick([a for a in _allocs(st_) if a.node.type.shape()], k1)
    if not s:
        return None
    dims = _dim_strs(s.node)
    d = k2 % len(dims)
    var = k3 % 8
    size, off, fold = dims[d], "0", False
    if var == 6:
        size, off = f"({dims[d]}) / 2", "0"
    elif var == 7:
        size, off = f"({dims[d]}) / 2", f"({dims[d]}) / 2"
    if var == 1:
        size, off = f"{dims[d]} + 1", "0"
    elif var == 2:
        size, off = f"{dims[d]} - 1", "1"
    elif var == 3:
        size, off = f"{dims[d]} - 1", "0"
    elif var == 4:
        size, off, fold = "2", "0", True
    elif var == 5:
        size, off = f"{dims[d]} + 2", "-1"
    c = cursor_at(p, s.path)
    return (lambda: S.resize_dim(p, c, d, size, off, fold=fold)), {"buf": str(s.node.name), "dim": d, "size": size, "off": off, "fold": fold}


@op("expand_dim", 3, group="storage")
def _(p, ir, st_, ex, k1, k2, k3, ctx):
    s = _pick(_allocs(st_), k1)
    if not s:
        return None
    iters = _scope_names(s, ("iter",))
    sizes = _scope_names(s, ("size",))
    opts = []
    for it in iters:
        # find loop hi for this iterator
        opts.append((it, None))
    size = ["4", "8"] + sizes
    sz = size[k2 % len(size)]
    idx = (iters + ["0", "1"] + [f"{i} + 1" for i in iters])[k3 % (2 * len(iters) + 2)]
    # prefer the bound of the chosen iterator as the size when possible
    if idx in iters and s.encl is not None:
        e = s.encl
        while e is not None and not (e.kind == "For" and str(e.node.iter) == idx):
            e = e.encl
        if e is not None and k2 % 3 != 2:
            sz = str(e.node.hi)
    c = cursor_at(p, s.path)
    return (lambda: S.expand_dim(p, c, sz, idx)), {"buf": str(s.node.name), "size": sz, "idx": idx}


@op("rearrange_dim", 2, group="storage")
def _(p, ir, st_, ex, k1, k2, k3, ctx):
    s = _pick([a for a in _allocs(st_) if len(a.node.type.shape()) >= 2], k1)
    if not s:
        return None
    n = len(s.node.type.shape())
    perm = list(range(n))
    perm = perm[1:] + perm[:1] if k2 % 2 == 0 else perm[::-1]
    c = cursor_at(p, s.path)
    return (lambda: S.rearrange_dim(p, c, perm)), {"buf": str(s.node.name), "perm": perm}


@op("divide_dim", 2, group="storage")
def _(p, ir, st_, ex, k1, k2, k3, ctx):
    s = _pick([a for a in _allocs(st_) if a.node.type.shape()], k1)
    if not s:
        return None
    d = k2 % len(s.node.type.shape())
    q = [2, 4, 3][k3 % 3]
    c = cursor_at(p, s.path)
    return (lambda: S.divide_dim(p, c, d, q)), {"buf": str(s.node.name), "dim": d, "q": q}


@op("mult_dim", 2, group="storage")
def _(p, ir, st_, ex, k1, k2, k3, ctx):
    s = _pick([a for a in _allocs(st_) if len(a.node.type.shape()) >= 2], k1)
    if not s:
        return None
    n = len(s.node.type.shape())
    hi, lo = (0, 1) if k2 % 2 == 0 else (n - 1, 0)
    c = cursor_at(p, s.path)
    return (lambda: S.mult_dim(p, c, hi, lo)), {"buf": str(s.node.name), "hi": hi, "lo": lo}


@op("unroll_buffer", 2, group="storage")
def _(p, ir, st_, ex, k1, k2, k3, ctx):
    s = _pick([a for a in _allocs(st_) if a.node.type.shape()], k1)
    if not s:
        return None
    d = k2 % len(s.node.type.shape())
    c = cursor_at(p, s.path)
    return (lambda: S.unroll_buffer(p, c, d)), {"buf": str(s.node.name), "dim": d}


@op("lift_alloc", 4, group="storage")
def _(p, ir, st_, ex, k1, k2, k3, ctx):
    s = _pick([a for a in _allocs(st_) if a.parent_kind != "proc"], k1) or _pick(_allocs(st_), k1)
    if not s:
        return None
    n = 1 + k2 % 2
    c = cursor_at(p, s.path)
    return (lambda: S.lift_alloc(p, c, n)), {"buf": str(s.node.name), "n": n}


@op("autolift_alloc", 1, group="storage")
def _(p, ir, st_, ex, k1, k2, k3, ctx):
    s = _pick([a for a in _allocs(st_) if a.parent_kind != "proc"], k1)
    if not s:
        return None
    n = 1 + k2 % 2
    c = cursor_at(p, s.path)
    keep = bool(k3 % 2)
    mode = ["row", "col"][(k3 // 2) % 2]
    return (lambda: S.autolift_alloc(p, c, n_lifts=n, mode=mode, size=None, keep_dims=keep)), {"buf": str(s.node.name), "n": n, "mode": mode, "keep_dims": keep}


@op("sink_alloc", 3, group="storage")
def _(p, ir, st_, ex, k1, k2, k3, ctx):
    s = _pick(_allocs(st_), k1)
    if not s:
        return None
    c = cursor_at(p, s.path)
    return (lambda: S.sink_alloc(p, c)), {"buf": str(s.node.name)}


@op("delete_buffer", 1, group="storage")
def _(p, ir, st_, ex, k1, k2, k3, ctx):
    s = _pick(_allocs(st_), k1)
    if not s:
        return None
    c = cursor_at(p, s.path)
    return (lambda: S.delete_buffer(p, c)), {"buf": str(s.node.name)}


@op("reuse_buffer", 3, group="storage")
def _(p, ir, st_, ex, k1, k2, k3, ctx):
    al = _allocs(st_)
    prs = [(a, b) for a in al for b in al if a is not b]
    pr = _pick(prs, k1)
    if not pr:
        return None
    ca, cb = cursor_at(p, pr[0].path), cursor_at(p, pr[1].path)
    return (lambda: S.reuse_buffer(p, ca, cb)), {"buf": str(pr[0].node.name), "rep": str(pr[1].node.name)}


def _buffers_in(ir, site):
    """names+types of buffers referenced under a statement site"""
    found = {}

    def we(e):
        if isinstance(e, LoopIR.Read):
            if e.idx:
                found.setdefault(str(e.name), e.name)
            for x in e.idx:
                we(x)
        elif isinstance(e, LoopIR.BinOp):
            we(e.lhs)
            we(e.rhs)
        elif isinstance(e, LoopIR.USub):
            we(e.arg)
        elif isinstance(e, LoopIR.Extern):
            for x in e.args:
                we(x)

    def ws(s):
        if isinstance(s, (LoopIR.Assign, LoopIR.Reduce)):
            if s.idx:
                found.setdefault(str(s.name), s.name)
            for x in s.idx:
                we(x)
            we(s.rhs)
        elif isinstance(s, LoopIR.For):
            for b in s.body:
                ws(b)
        elif isinstance(s, LoopIR.If):
            for b in s.body + s.orelse:
                ws(b)

    ws(site.node)
    return found


def _decl_dims(ir, st_, sym):
    for a in ir.args:
        if a.name is sym or a.name == sym:
            return [str(e) for e in a.type.shape()] if a.type.is_tensor_or_window() else []
    for s in st_:
        if s.kind == "Alloc" and s.node.name == sym:
            return [str(e) for e in s.node.type.shape()]
    return None


@op("stage_mem", 5, group="storage")
def _(p, ir, st_, ex, k1, k2, k3, ctx):
    s = _pick([s for s in st_ if s.kind in ("For", "Assign", "Reduce", "If")], k1)
    if not s:
        return None
    bufs = _buffers_in(ir, s)
    if not bufs:
        return None
    names = sorted(bufs)
    bn = names[k2 % len(names)]
    dims = _decl_dims(ir, st_, bufs[bn])
    if not dims:
        return None
    var = k3 % 6
    iters = _scope_names(s, ("iter",))
    acc = []
    for di, d in enumerate(dims):
        if var == 0:
            acc.append(f"0:{d}")
        elif var == 1:
            acc.append(f"0:{d} - 1" if di == 0 else f"0:{d}")
        elif var == 2:
            acc.append(f"1:{d}" if di == len(dims) - 1 else f"0:{d}")
        elif var == 3 and iters:
            acc.append(iters[-1] if di == 0 else f"0:{d}")
        elif var == 4 and iters:
            acc.append(f"{iters[-1]}:{iters[-1]} + 2" if di == len(dims) - 1 else f"0:{d}")
        else:
            acc.append(f"0:{d}")
    win = f"{bn}[{', '.join(acc)}]"
    c = cursor_at(p, s.path)
    n = min((k3 // 6) % 2, s.nsib - s.pos - 1)
    blk = c.expand(0, n)
    nm = NAME_POOL[(k2 // 3) % len(NAME_POOL)]
    accum = (k3 // 12) % 4 == 3
    return (lambda: S.stage_mem(p, blk, win, nm, accum=accum)), {"at": path_str(s.path), "len": n + 1, "win": win, "name": nm, "accum": accum}


@op("divide_loop", 8, group="loop")
def _(p, ir, st_, ex, k1, k2, k3, ctx):
    s = _pick(_loops(st_), k1)
    if not s:
        return None
    q = [2, 3, 4, 8, 2, 4][k2 % 6]
    tail = ["cut", "guard", "cut_and_guard"][k3 % 3]
    perfect = (k3 // 3) % 4 == 3
    names = [["io", "ii"], [str(s.node.iter) + "o", str(s.node.iter) + "i"], ["i", "j"], ["a", "a_1"]][(k2 // 6) % 4]
    c = cursor_at(p, s.path)
    return (lambda: S.divide_loop(p, c, q, names, tail=tail, perfect=perfect)), {"loop": path_str(s.path), "q": q, "tail": tail, "perfect": perfect, "names": names}


@op("divide_with_recompute", 1, group="loop")
def _(p, ir, st_, ex, k1, k2, k3, ctx):
    s = _pick(_loops(st_), k1)
    if not s:
        return None
    hi = str(s.node.hi)
    q = [2, 4][k2 % 2]
    ohi = [f"({hi}) / {q}", f"({hi} - 1) / {q}", f"{hi}"][k3 % 3]
    c = cursor_at(p, s.path)
    return (lambda: S.divide_with_recompute(p, c, ohi, q, ["io", "ii"])), {"loop": path_str(s.path), "outer_hi": ohi, "q": q}


def _nested(st_):
    return [s for s in _loops(st_) if len(s.node.body) == 1 and isinstance(s.node.body[0], LoopIR.For)]


@op("mult_loops", 3, group="loop")
def _(p, ir, st_, ex, k1, k2, k3, ctx):
    s = _pick(_nested(st_), k1) or _pick(_loops(st_), k1)
    if not s:
        return None
    c = cursor_at(p, s.path)
    nm = NAME_POOL[k2 % len(NAME_POOL)]
    return (lambda: S.mult_loops(p, c, nm)), {"loop": path_str(s.path), "name": nm}


@op("reorder_loops", 5, group="loop")
def _(p, ir, st_, ex, k1, k2, k3, ctx):
    s = _pick(_nested(st_), k1) or _pick(_loops(st_), k1)
    if not s:
        return None
    if k2 % 3 == 0 and len(s.node.body) == 1 and isinstance(s.node.body[0], LoopIR.For):
        pat = f"{s.node.iter} {s.node.body[0].iter}"
        return (lambda: S.reorder_loops(p, pat)), {"pattern": pat}
    c = cursor_at(p, s.path)
    return (lambda: S.reorder_loops(p, c)), {"loop": path_str(s.path)}


@op("join_loops", 3, group="loop")
def _(p, ir, st_, ex, k1, k2, k3, ctx):
    pr = _pick(_pairs(st_, lambda a, b: a.kind == "For" and b.kind == "For"), k1)
    if not pr:
        return None
    ca, cb = cursor_at(p, pr[0].path), cursor_at(p, pr[1].path)
    return (lambda: S.join_loops(p, ca, cb)), {"at": path_str(pr[0].path)}


@op("fuse", 5, group="loop")
def _(p, ir, st_, ex, k1, k2, k3, ctx):
    pr = _pick(_pairs(st_, lambda a, b: a.kind == b.kind and a.kind in ("For", "If")), k1)
    if not pr:
        return None
    ca, cb = cursor_at(p, pr[0].path), cursor_at(p, pr[1].path)
    return (lambda: S.fuse(p, ca, cb)), {"at": path_str(pr[0].path), "kind": pr[0].kind}


@op("cut_loop", 5, group="loop")
def _(p, ir, st_, ex, k1, k2, k3, ctx):
    s = _pick(_loops(st_), k1)
    if not s:
        return None
    lo, hi = str(s.node.lo), str(s.node.hi)
    cut = [f"{lo} + 1", f"{hi} - 1", lo, hi, "2", f"({lo} + {hi}) / 2", f"{lo} - 1", f"{hi} + 1", "3", _idx_exprs(s, k3)][k2 % 10]
    c = cursor_at(p, s.path)
    return (lambda: S.cut_loop(p, c, cut)), {"loop": path_str(s.path), "cut": cut}


@op("shift_loop", 4, group="loop")
def _(p, ir, st_, ex, k1, k2, k3, ctx):
    s = _pick(_loops(st_), k1)
    if not s:
        return None
    new = ["0", "1", "2", "5", _idx_exprs(s, k3), "-1"][k2 % 6]
    c = cursor_at(p, s.path)
    return (lambda: S.shift_loop(p, c, new)), {"loop": path_str(s.path), "new_lo": new}


@op("split_write", 2)
def _(p, ir, st_, ex, k1, k2, k3, ctx):
    s = _pick([s for s in st_ if s.kind in ("Assign", "Reduce")], k1)
    if not s:
        return None
    c = cursor_at(p, s.path)
    return (lambda: S.split_write(p, c)), {"at": path_str(s.path)}


@op("fold_into_reduce", 2)
def _(p, ir, st_, ex, k1, k2, k3, ctx):
    s = _pick([s for s in st_ if s.kind == "Assign"], k1)
    if not s:
        return None
    c = cursor_at(p, s.path)
    return (lambda: S.fold_into_reduce(p, c)), {"at": path_str(s.path)}


@op("inline_assign", 3)
def _(p, ir, st_, ex, k1, k2, k3, ctx):
    s = _pick([s for s in st_ if s.kind == "Assign"], k1)
    if not s:
        return None
    c = cursor_at(p, s.path)
    return (lambda: S.inline_assign(p, c)), {"at": path_str(s.path)}


@op("fission", 6, group="loop")
def _(p, ir, st_, ex, k1, k2, k3, ctx):
    s = _pick([s for s in st_ if s.parent_kind in ("For", "If") and s.pos + 1 < s.nsib], k1)
    if not s:
        return None
    c = cursor_at(p, s.path)
    n = 1 + k2 % 2
    return (lambda: S.fission(p, c.after(), n_lifts=n)), {"after": path_str(s.path), "n": n}


@op("autofission", 2, group="loop")
def _(p, ir, st_, ex, k1, k2, k3, ctx):
    s = _pick([s for s in st_ if s.parent_kind in ("For", "If") and s.pos + 1 < s.nsib], k1)
    if not s:
        return None
    c = cursor_at(p, s.path)
    n = 1 + k2 % 2
    return (lambda: S.autofission(p, c.after(), n_lifts=n)), {"after": path_str(s.path), "n": n}


@op("remove_loop", 4, group="loop")
def _(p, ir, st_, ex, k1, k2, k3, ctx):
    s = _pick(_loops(st_), k1)
    if not s:
        return None
    c = cursor_at(p, s.path)
    return (lambda: S.remove_loop(p, c)), {"loop": path_str(s.path)}


@op("add_loop", 3, group="loop")
def _(p, ir, st_, ex, k1, k2, k3, ctx):
    s = _pick(st_, k1)
    if not s:
        return None
    c = cursor_at(p, s.path)
    szs = _scope_names(s, ("size",))
    idxs = _scope_names(s, ("index",))
    his = ["2", "3", "1"] + szs + [f"{n} / 4" for n in szs] + [f"{n} - 1" for n in szs] + idxs
    hi = his[k2 % len(his)]
    guard = k3 % 3 == 0
    nm = NAME_POOL[(k3 // 3) % len(NAME_POOL)]
    return (lambda: S.add_loop(p, c, nm, hi, guard=guard)), {"at": path_str(s.path), "hi": hi, "guard": guard, "name": nm}


@op("unroll_loop", 5, group="loop")
def _(p, ir, st_, ex, k1, k2, k3, ctx):
    ls = [l for l in _loops(st_) if isinstance(l.node.hi, LoopIR.Const) and isinstance(l.node.lo, LoopIR.Const) and l.node.hi.val - l.node.lo.val <= 8]
    s = _pick(ls, k1) if k2 % 4 else _pick(_loops(st_), k1)
    if not s:
        return None
    c = cursor_at(p, s.path)
    return (lambda: S.unroll_loop(p, c)), {"loop": path_str(s.path)}


@op("lift_scope", 4, group="loop")
def _(p, ir, st_, ex, k1, k2, k3, ctx):
    s = _pick([s for s in st_ if s.kind in ("For", "If") and s.parent_kind in ("For", "If")], k1)
    if not s:
        return None
    c = cursor_at(p, s.path)
    return (lambda: S.lift_scope(p, c)), {"at": path_str(s.path), "kind": s.kind}


@op("eliminate_dead_code", 3, group="loop")
def _(p, ir, st_, ex, k1, k2, k3, ctx):
    s = _pick([s for s in st_ if s.kind in ("For", "If")], k1)
    if not s:
        return None
    c = cursor_at(p, s.path)
    return (lambda: S.eliminate_dead_code(p, c)), {"at": path_str(s.path), "kind": s.kind}


def _conds(site, k):
    names = _scope_names(site)
    bools = _scope_names(site, ("bool",))
    pool = [f"{n} {o} {c}" for n in names for o, c in (("==", 0), ("<", 2), (">", 1), (">=", 3))] + bools + ["0 < 1"]
    return pool[k % len(pool)]


@op("specialize", 4, group="loop")
def _(p, ir, st_, ex, k1, k2, k3, ctx):
    s = _pick(st_, k1)
    if not s:
        return None
    c = cursor_at(p, s.path)
    conds = [_conds(s, k2)] + ([_conds(s, k3)] if k3 % 3 == 0 else [])
    n = min((k3 // 3) % 2, s.nsib - s.pos - 1)
    blk = c.expand(0, n)
    return (lambda: S.specialize(p, blk, conds)), {"at": path_str(s.path), "conds": conds, "len": n + 1}


# ---- configuration ops (low weight outside C10)


@op("write_config", 1, group="config")
def _(p, ir, st_, ex, k1, k2, k3, ctx):
    cfgs = ctx.configs()
    s = _pick(st_, k1)
    if not s or not cfgs:
        return None
    (cn, fld, ty), cfg = _pick(cfgs, k2)
    if ty == "index":
        rhs = ["0", "1", "3"][k3 % 3]
    elif ty == "bool":
        rhs = ["True", "False"][k3 % 2]
    else:
        # (literal data values hit an internal 'bad case' in the effect lowering; scalar
        #  variables are the form the analysis supports)
        scal = [str(a.name) for a in ir.args if a.type.is_real_scalar()]
        rhs = scal[k3 % len(scal)] if scal and k3 % 4 else ["0.0", "2.0"][k3 % 2]
    c = cursor_at(p, s.path)
    side = "before" if (k3 // 3) % 2 == 0 else "after"
    g = c.before() if side == "before" else c.after()
    return (lambda: S.write_config(p, g, cfg, fld, rhs)), {"at": path_str(s.path), "side": side, "cfg": f"{cn}.{fld}", "rhs": rhs}


@op("delete_config", 1, group="config")
def _(p, ir, st_, ex, k1, k2, k3, ctx):
    s = _pick([s for s in st_ if s.kind == "WriteConfig"], k1)
    if not s:
        return None
    c = cursor_at(p, s.path)
    return (lambda: S.delete_config(p, c)), {"at": path_str(s.path)}


@op("bind_config", 1, group="config")
def _(p, ir, st_, ex, k1, k2, k3, ctx):
    cfgs = ctx.configs()
    e = _pick([e for e in ex if e.kind == "Read" and not e.node.idx and (e.node.type.is_real_scalar() or e.node.type.is_bool())], k1)
    if not e or not cfgs:
        return None
    (cn, fld, ty), cfg = _pick(cfgs, k2)
    c = cursor_at(p, e.path)
    return (lambda: S.bind_config(p, c, cfg, fld)), {"at": path_str(e.path), "cfg": f"{cn}.{fld}"}


# ---- standard-library compositions


def _std():
    import exo.stdlib.stdlib as L

    return L


@op("std.cleanup", 2, group="stdlib")
def _(p, ir, st_, ex, k1, k2, k3, ctx):
    return (lambda: _std().cleanup(p)), {}


@op("std.unroll_loops", 1, group="stdlib")
def _(p, ir, st_, ex, k1, k2, k3, ctx):
    return (lambda: _std().unroll_loops(p, threshold=4 + k1 % 5)), {"threshold": 4 + k1 % 5}


@op("std.tile_loops", 2, group="stdlib")
def _(p, ir, st_, ex, k1, k2, k3, ctx):
    s = _pick(_nested(st_), k1)
    if not s:
        return None
    c = cursor_at(p, s.path)
    c2 = cursor_at(p, s.path + [("body", 0)])
    t = [2, 4][k2 % 2]
    return (lambda: _std().tile_loops(p, [(c, t), (c2, 2)], perfect=bool(k3 % 2))[0]), {"loop": path_str(s.path), "tiles": [t, 2], "perfect": bool(k3 % 2)}


@op("std.interleave_loop", 2, group="stdlib")
def _(p, ir, st_, ex, k1, k2, k3, ctx):
    s = _pick(_loops(st_), k1)
    if not s:
        return None
    c = cursor_at(p, s.path)
    f = [2, 4, None][k2 % 3]
    tail = ["cut", "guard"][k3 % 2]
    return (lambda: _std().interleave_loop(p, c, f, tail=tail)), {"loop": path_str(s.path), "factor": f, "tail": tail}


@op("std.hoist_stmt", 2, group="stdlib")
def _(p, ir, st_, ex, k1, k2, k3, ctx):
    s = _pick([s for s in st_ if s.parent_kind in ("For", "If")], k1)
    if not s:
        return None
    c = cursor_at(p, s.path)
    return (lambda: _std().hoist_stmt(p, c)), {"at": path_str(s.path)}


@op("std.hoist_from_loop", 2, group="stdlib")
def _(p, ir, st_, ex, k1, k2, k3, ctx):
    s = _pick(_loops(st_), k1)
    if not s:
        return None
    c = cursor_at(p, s.path)
    return (lambda: _std().hoist_from_loop(p, c)), {"loop": path_str(s.path)}


@op("std.fission_into_singles", 2, group="stdlib")
def _(p, ir, st_, ex, k1, k2, k3, ctx):
    s = _pick([s for s in st_ if s.kind in ("For", "If")], k1)
    if not s:
        return None
    c = cursor_at(p, s.path)
    return (lambda: _std().fission_into_singles(p, c)), {"at": path_str(s.path)}


@op("std.unroll_and_jam", 1, group="stdlib")
def _(p, ir, st_, ex, k1, k2, k3, ctx):
    s = _pick(_nested(st_), k1)
    if not s:
        return None
    c = cursor_at(p, s.path)
    return (lambda: _std().unroll_and_jam(p, c, 2)), {"loop": path_str(s.path)}


@op("std.auto_stage_mem", 2, group="stdlib")
def _(p, ir, st_, ex, k1, k2, k3, ctx):
    s = _pick([s for s in st_ if s.kind in ("For", "Assign", "Reduce")], k1)
    if not s:
        return None
    bufs = sorted(_buffers_in(ir, s))
    if not bufs:
        return None
    bn = bufs[k2 % len(bufs)]
    c = cursor_at(p, s.path)
    return (lambda: _std().auto_stage_mem(p, c, bn, f"st{ctx.fresh()}", accum=k3 % 5 == 4)), {"at": path_str(s.path), "buf": bn}


@op("std.bound_loop_by_if", 1, group="stdlib")
def _(p, ir, st_, ex, k1, k2, k3, ctx):
    s = _pick(_loops(st_), k1)
    if not s:
        return None
    c = cursor_at(p, s.path)
    return (lambda: _std().bound_loop_by_if(p, c)), {"loop": path_str(s.path)}


@op("std.round_loop", 1, group="stdlib")
def _(p, ir, st_, ex, k1, k2, k3, ctx):
    s = _pick(_loops(st_), k1)
    if not s:
        return None
    c = cursor_at(p, s.path)
    return (lambda: _std().round_loop(p, c, [2, 4][k2 % 2], up=bool(k3 % 2))), {"loop": path_str(s.path), "factor": [2, 4][k2 % 2], "up": bool(k3 % 2)}


@op("std.cut_loop_and_unroll", 1, group="stdlib")
def _(p, ir, st_, ex, k1, k2, k3, ctx):
    s = _pick(_loops(st_), k1)
    if not s:
        return None
    c = cursor_at(p, s.path)
    return (lambda: _std().cut_loop_and_unroll(p, c, 1 + k2 % 3, front=bool(k3 % 2))), {"loop": path_str(s.path), "const": 1 + k2 % 3, "front": bool(k3 % 2)}


@op("std.divide_loop_recursive", 1, group="stdlib")
def _(p, ir, st_, ex, k1, k2, k3, ctx):
    s = _pick(_loops(st_), k1)
    if not s:
        return None
    c = cursor_at(p, s.path)
    return (lambda: _std().divide_loop_recursive(p, c, 4, tail=["cut", "guard"][k2 % 2])), {"loop": path_str(s.path), "tail": ["cut", "guard"][k2 % 2]}


@op("std.reorder_stmt_forward", 1, group="stdlib")
def _(p, ir, st_, ex, k1, k2, k3, ctx):
    s = _pick(st_, k1)
    if not s:
        return None
    c = cursor_at(p, s.path)
    f = _std().reorder_stmt_forward if k2 % 2 == 0 else _std().reorder_stmt_backwards
    return (lambda: f(p, c)), {"at": path_str(s.path), "dir": k2 % 2}


@op("std.dealias", 1, group="stdlib")
def _(p, ir, st_, ex, k1, k2, k3, ctx):
    s = _pick([s for s in st_ if s.kind in ("Assign", "Reduce")], k1)
    if not s:
        return None
    c = cursor_at(p, s.path)
    return (lambda: _std().dealias(p, c)), {"at": path_str(s.path)}


@op("std.binary_specialize", 1, group="stdlib")
def _(p, ir, st_, ex, k1, k2, k3, ctx):
    s = _pick(st_, k1)
    if not s:
        return None
    names = _scope_names(s, ("size", "index"))
    if not names:
        return None
    c = cursor_at(p, s.path)
    n = names[k2 % len(names)]
    vals = [[1, 2], [1, 2, 3], [2, 4]][k3 % 3]
    return (lambda: _std().binary_specialize(p, c, n, vals)), {"at": path_str(s.path), "expr": n, "values": vals}


@op("lift_if", 1, group="loop")
def _(p, ir, st_, ex, k1, k2, k3, ctx):
    s = _pick([s for s in st_ if s.kind == "If" and s.parent_kind in ("For", "If")], k1)
    if not s:
        return None
    c = cursor_at(p, s.path)
    return (lambda: S.lift_if(p, c, n_lifts=1 + k2 % 2)), {"if": path_str(s.path), "n_lifts": 1 + k2 % 2}


@op("insert_noop_call", 1)
def _(p, ir, st_, ex, k1, k2, k3, ctx):
    s = _pick(st_, k1)
    if not s:
        return None
    f = ctx.noop_callee()
    if f is None:
        return None
    found = _buffers_in(ir, s)
    bufs = sorted(found)
    dims = None
    for b in bufs[k2 % len(bufs) :] + bufs[: k2 % len(bufs)] if bufs else []:
        d = _decl_dims(ir, st_, found[b])
        if d and len(d) == 1:
            dims = (b, d)
            break
    if dims is None:
        return None
    b, d = dims
    n, win = [("1", f"{b}[0:1]"), (d[0], f"{b}[0:{d[0]}]"), ("1", f"{b}[{d[0]} - 1:{d[0]}]")][k3 % 3]
    c = cursor_at(p, s.path)
    g = c.before() if k3 // 3 % 2 == 0 else c.after()
    return (lambda: S.insert_noop_call(p, g, f, [n, win])), {"at": path_str(s.path), "side": k3 // 3 % 2, "arg": win}


@op("std.cse", 1, group="stdlib")
def _(p, ir, st_, ex, k1, k2, k3, ctx):
    s = _pick([s for s in st_ if s.kind in ("For", "If", "Assign", "Reduce")], k1)
    if not s:
        return None
    c = cursor_at(p, s.path)
    prec = ["f32", "f64", "R"][k2 % 3]
    return (lambda: _std().cse(p, c, prec)), {"at": path_str(s.path), "prec": prec}


@op("std.jam_stmt", 1, group="stdlib")
def _(p, ir, st_, ex, k1, k2, k3, ctx):
    s = _pick([s for s in st_ if s.pos + 1 < s.nsib and s.kind in ("Assign", "Reduce", "Alloc", "Call")], k1)
    if not s:
        return None
    c = cursor_at(p, s.path)
    return (lambda: _std().jam_stmt(p, c)), {"at": path_str(s.path)}


@op("std.unroll_buffers", 1, group="stdlib")
def _(p, ir, st_, ex, k1, k2, k3, ctx):
    return (lambda: _std().unroll_buffers(p)), {}


@op("std.unfold_reduce", 1, group="stdlib")
def _(p, ir, st_, ex, k1, k2, k3, ctx):
    s = _pick([s for s in st_ if s.kind == "Reduce"], k1)
    if not s:
        return None
    c = cursor_at(p, s.path)
    return (lambda: _std().unfold_reduce(p, c)), {"at": path_str(s.path)}


@op("std.undo_divide_and_guard_loop", 1, group="stdlib")
def _(p, ir, st_, ex, k1, k2, k3, ctx):
    s = _pick(_nested(st_), k1)
    if not s:
        return None
    c = cursor_at(p, s.path)
    return (lambda: _std().undo_divide_and_guard_loop(p, c)), {"loop": path_str(s.path)}


@op("std.tile_loops_bottom_up", 1, group="stdlib")
def _(p, ir, st_, ex, k1, k2, k3, ctx):
    s = _pick(_nested(st_), k1)
    if not s:
        return None
    c = cursor_at(p, s.path)
    tiles = [(2, 2), (4, 2), (2, None)][k2 % 3]
    return (lambda: _std().tile_loops_bottom_up(p, c, tiles)), {"loop": path_str(s.path), "tiles": list(tiles)}


@op("std.unroll_and_jam_parent", 1, group="stdlib")
def _(p, ir, st_, ex, k1, k2, k3, ctx):
    s = _pick([s for s in _loops(st_) if s.parent_kind == "For"], k1)
    if not s:
        return None
    c = cursor_at(p, s.path)
    return (lambda: _std().unroll_and_jam_parent(p, c, 2)), {"loop": path_str(s.path)}


@op("std.parallelize_reduction", 1, group="stdlib")
def _(p, ir, st_, ex, k1, k2, k3, ctx):
    from exo import DRAM

    s = _pick([s for s in st_ if s.kind == "Reduce" and s.parent_kind == "For"], k1)
    if not s:
        return None
    c = cursor_at(p, s.path)
    fac = [None, 2, 4][k2 % 3]
    return (lambda: _std().parallelize_reduction(p, c, factor=fac, memory=DRAM, nth_loop=1 + k3 % 2, unroll=bool(k3 // 2 % 2))), {"at": path_str(s.path), "factor": fac, "nth": 1 + k3 % 2, "unroll": bool(k3 // 2 % 2)}


@op("std.parallelize_all_reductions", 1, group="stdlib")
def _(p, ir, st_, ex, k1, k2, k3, ctx):
    from exo import DRAM

    s = _pick(_loops(st_), k1)
    if not s:
        return None
    c = cursor_at(p, s.path)
    fac = [None, 2, 4][k2 % 3]
    return (lambda: _std().parallelize_all_reductions(p, c, factor=fac, memory=DRAM)), {"loop": path_str(s.path), "factor": fac}


@op("std.parallelize_allocs", 1, group="stdlib")
def _(p, ir, st_, ex, k1, k2, k3, ctx):
    s = _pick([s for s in st_ if s.kind in ("For", "If")], k1)
    if not s:
        return None
    c = cursor_at(p, s.path)
    return (lambda: _std().parallelize_allocs(p, c)), {"at": path_str(s.path)}


@op("std.vectorize", 1, group="stdlib")
def _(p, ir, st_, ex, k1, k2, k3, ctx):
    from exo.libs.memories import AVX2
    from exo import DRAM

    s = _pick(_loops(st_), k1)
    if not s:
        return None
    c = cursor_at(p, s.path)
    mem = [DRAM, AVX2][k2 % 2]
    w = [8, 4][k3 % 2] if mem is AVX2 else [2, 4][k3 % 2]
    tail = ["cut", "cut_and_predicate", "predicate", "perfect"][k3 // 2 % 4]
    return (lambda: _std().vectorize(p, c, w, "f32", mem, instructions=[], rules=[_std().fma_rule] if k3 // 8 % 2 else [], tail=tail)), {"loop": path_str(s.path), "width": w, "mem": mem.name(), "tail": tail, "fma": bool(k3 // 8 % 2)}


@op("halide.tile", 1, group="stdlib")
def _(p, ir, st_, ex, k1, k2, k3, ctx):
    import exo.stdlib.halide_scheduling_ops as H

    s = _pick(_nested(st_), k1)
    if not s:
        return None
    c = cursor_at(p, s.path)
    c2 = cursor_at(p, s.path + [("body", 0)])
    a, b = [(2, 2), (4, 2), (2, 4)][k2 % 3]
    perfect = bool(k3 % 2)
    return (lambda: H.tile(p, c, c2, ["yo", "yi"], ["xo", "xi"], a, b, perfect=perfect)), {"loop": path_str(s.path), "tiles": [a, b], "perfect": perfect}


@op("halide.split", 1, group="stdlib")
def _(p, ir, st_, ex, k1, k2, k3, ctx):
    import exo.stdlib.halide_scheduling_ops as H

    s = _pick(_loops(st_), k1)
    if not s:
        return None
    c = cursor_at(p, s.path)
    tail = ["perfect", "cut", "guard", "cut_and_guard"][k3 % 4]
    return (lambda: H.split(p, c, "so", "si", [2, 4, 3][k2 % 3], tail)), {"loop": path_str(s.path), "factor": [2, 4, 3][k2 % 3], "tail": tail}


@op("halide.compute_at", 1, group="stdlib")
def _(p, ir, st_, ex, k1, k2, k3, ctx):
    import exo.stdlib.halide_scheduling_ops as H

    prods = [s for s in st_ if s.kind == "Assign"]
    s = _pick(prods, k1)
    loops = _loops(st_)
    if not s or not loops:
        return None
    t = loops[k2 % len(loops)]
    return (lambda: H.compute_at(p, cursor_at(p, s.path), cursor_at(p, t.path), with_prologue=bool(k3 % 2))), {"producer": path_str(s.path), "loop": path_str(t.path), "prologue": bool(k3 % 2)}


@op("halide.store_at", 1, group="stdlib")
def _(p, ir, st_, ex, k1, k2, k3, ctx):
    import exo.stdlib.halide_scheduling_ops as H

    s = _pick(_allocs(st_), k1)
    loops = _loops(st_)
    if not s or not loops:
        return None
    t = loops[k2 % len(loops)]
    return (lambda: H.store_at(p, cursor_at(p, s.path), cursor_at(p, t.path))), {"alloc": path_str(s.path), "loop": path_str(t.path)}


@op("halide.simplify_with_preds", 1, group="stdlib")
def _(p, ir, st_, ex, k1, k2, k3, ctx):
    import exo.stdlib.halide_scheduling_ops as H

    return (lambda: H._simplify_with_preds(p)), {}


# ---- unsafe escape hatches (never drawn by equivalence properties)


@op("unsafe.fission", 1, unsafe=True, group="unsafe")
def _(p, ir, st_, ex, k1, k2, k3, ctx):
    s = _pick([s for s in st_ if s.parent_kind in ("For", "If") and s.pos + 1 < s.nsib], k1)
    if not s:
        return None
    c = cursor_at(p, s.path)
    return (lambda: S.fission(p, c.after(), n_lifts=1 + k2 % 2, unsafe_disable_checks=True)), {"after": path_str(s.path)}


@op("unsafe.fuse", 1, unsafe=True, group="unsafe")
def _(p, ir, st_, ex, k1, k2, k3, ctx):
    pr = _pick(_pairs(st_, lambda a, b: a.kind == b.kind and a.kind in ("For", "If")), k1)
    if not pr:
        return None
    ca, cb = cursor_at(p, pr[0].path), cursor_at(p, pr[1].path)
    return (lambda: S.fuse(p, ca, cb, unsafe_disable_check=True)), {"at": path_str(pr[0].path)}


@op("unsafe.remove_loop", 1, unsafe=True, group="unsafe")
def _(p, ir, st_, ex, k1, k2, k3, ctx):
    s = _pick(_loops(st_), k1)
    if not s:
        return None
    c = cursor_at(p, s.path)
    return (lambda: S.remove_loop(p, c, unsafe_disable_check=True)), {"loop": path_str(s.path)}


@op("unsafe.add_loop", 1, unsafe=True, group="unsafe")
def _(p, ir, st_, ex, k1, k2, k3, ctx):
    s = _pick(st_, k1)
    if not s:
        return None
    c = cursor_at(p, s.path)
    return (lambda: S.add_loop(p, c, "u", "2", unsafe_disable_check=True)), {"at": path_str(s.path)}


@op("unsafe.add_unsafe_guard", 1, unsafe=True, group="unsafe")
def _(p, ir, st_, ex, k1, k2, k3, ctx):
    s = _pick(st_, k1)
    if not s:
        return None
    c = cursor_at(p, s.path)
    cond = _conds(s, k2)
    return (lambda: S.add_unsafe_guard(p, c, cond)), {"at": path_str(s.path), "cond": cond}


# --------------------------------------------------------------------------- #


class SchedCtx:
    def __init__(self, env=None, prog=None):
        self.env = env or {}
        self.prog = prog
        self._n = 0

    def callee_source(self, name):
        if not self.prog:
            return None
        from .gen.programs import render_proc

        for c in self.prog["callees"]:
            if c["name"] == name:
                return render_proc(c)
        return None

    def fresh(self):
        self._n += 1
        return self._n

    def noop_callee(self):
        """a pass-bodied callee taking one 1-d f32 window (for insert_noop_call)"""
        if "_noop" not in self.__dict__:
            from .exoutil import exec_source

            try:
                self._noop = exec_source("@proc\ndef noop1(n: size, w: [f32][n]):\n    pass\n")["noop1"]
            except Exception:
                self._noop = None
        return self._noop

    def configs(self):
        out = []
        for cn in ("CfgA", "CfgB"):
            cfg = self.env.get(cn)
            if cfg is None:
                continue
            for fld, _ in cfg.fields():
                t = cfg.lookup_type(fld)
                ty = "index" if isinstance(t, (T.Index, T.Size)) else ("bool" if isinstance(t, T.Bool) else "data")
                out.append(((cn, fld, ty), cfg))
        return out


def op_names(groups=("core", "storage", "loop", "stdlib", "config"), unsafe=False, weights=None):
    """weighted list of op names for sampling (weights = replication)"""
    out = []
    for n, o in OPS.items():
        if o["unsafe"] and not unsafe:
            continue
        if o["group"] not in groups and not (o["unsafe"] and unsafe):
            continue
        w = (weights or {}).get(n, (weights or {}).get("group:" + o["group"], o["weight"]))
        out.extend([n] * w)
    return out


def apply_step(p, step, ctx):
    """-> (new_proc | None, outcome, desc).  outcome in accepted|rejected|internal|noop"""
    name, k1, k2, k3 = step
    o = OPS.get(name)
    if o is None:
        return None, "noop", {"op": name}
    ir = p.INTERNAL_proc()
    st_, ex = collect(ir)
    try:
        r = o["resolve"](p, ir, st_, ex, k1, k2, k3, ctx)
    except rejection_types() as e:
        return None, "rejected", {"op": name, "err": f"resolve: {type(e).__name__}: {str(e)[:200]}"}
    except (KeyboardInterrupt, SystemExit, MemoryError):
        raise
    except BaseException as e:  # noqa  (resolvers of composite ops call scheduling functions themselves)
        return None, "internal", {"op": name, "err": f"resolve: {type(e).__name__}: {str(e)[:200]}"}
    if r is None:
        return None, "noop", {"op": name}
    thunk, desc = r
    desc = dict(desc, op=name)
    try:
        q = thunk()
    except rejection_types() as e:
        desc["err"] = f"{type(e).__name__}: {str(e)[:300]}"
        return None, "rejected", desc
    except (KeyboardInterrupt, SystemExit, MemoryError):
        raise
    except RecursionError as e:
        desc["err"] = "RecursionError"
        return None, "internal", desc
    except BaseException as e:  # noqa  AssertionError, KeyError, IndexError, ...
        tb = traceback.extract_tb(e.__traceback__)
        where = f"{tb[-1].filename.split('/')[-1]}:{tb[-1].lineno}" if tb else "?"
        desc["err"] = f"{type(e).__name__}@{where}: {str(e)[:200]}"
        return None, "internal", desc
    if not hasattr(q, "INTERNAL_proc"):
        desc["err"] = f"returned {type(q).__name__}"
        return None, "internal", desc
    return q, "accepted", desc


def distinct_steps(p, names, ctx, grid=(8, 6, 8), cap=40):
    """Every DISTINCT resolved call (by its printable description) that the catalogue offers on
    procedure p for the ops in `names` over a (k1, k2, k3) grid, as steps [op, k1, k2, k3].
    Resolving does not run the primitive, so this is cheap; composite ops (stdlib/config groups,
    whose resolvers call scheduling functions themselves) get a smaller grid; `cap` bounds ops
    whose description contains a fresh-name counter."""
    import json

    ir = p.INTERNAL_proc()
    st_, ex = collect(ir)
    out = []
    for name in sorted(set(names)):
        o = OPS.get(name)
        if o is None:
            continue
        if o["group"] == "stdlib":
            g1, g2, g3 = min(grid[0], 4), 2, 2
        elif name == "call_eqv":
            g1, g2, g3 = min(grid[0], 4), 6, 4
        else:
            g1, g2, g3 = grid
            # k1 selects the site: cover every statement (and a good part of the expression sites)
            g1 = max(g1, min(len(st_), 40))
        seen = set()
        for k1 in range(g1):
            for k2 in range(g2):
                for k3 in range(g3):
                    if len(seen) >= cap:
                        break
                    try:
                        r = o["resolve"](p, ir, st_, ex, k1, k2, k3, ctx)
                    except (KeyboardInterrupt, SystemExit, MemoryError):
                        raise
                    except BaseException:  # noqa -- resolver itself failed: keep one such step per op
                        r = (None, {"resolve-error": True})
                    if r is None:
                        continue
                    d = json.dumps(r[1], sort_keys=True, default=str)
                    if d in seen:
                        continue
                    seen.add(d)
                    out.append([name, k1, k2, k3])
    return out


# ---- call_eqv with callee variants (used by C10; low weight elsewhere)


def _callee_variant(ctx, f_proc, k2, k3):
    """-> (variant Procedure, kind) derived from the callee f_proc (a Procedure)"""
    kind = k2 % 6
    if kind == 0:
        return S.rename(f_proc, f"{f_proc.name()}_r{ctx.fresh()}"), "renamed"
    if kind == 1:
        return S.simplify(f_proc), "simplified"
    if kind == 2:
        cfgs = ctx.configs()
        if not cfgs:
            return None, None
        (cn, fld, ty), cfg = cfgs[k3 % len(cfgs)]
        rhs = {"index": "3", "bool": "True", "data": "2.0"}[ty]
        return S.write_config(f_proc, f_proc.body()[-1].after(), cfg, fld, rhs), f"config-writing({cn}.{fld})"
    if kind == 3:
        # unrelated look-alike: same text, new origin
        src = ctx.callee_source(f_proc.name())
        if src is None:
            return None, None
        from .exoutil import exec_source

        g = exec_source(src, dict(ctx.env))
        return g[f_proc.name()], "unrelated-lookalike"
    if kind == 4:
        ir = f_proc.INTERNAL_proc()
        st_, ex = collect(ir)
        loops = _loops(st_)
        if not loops:
            return None, None
        return S.divide_loop(f_proc, cursor_at(f_proc, loops[k3 % len(loops)].path), 2, ["vo", "vi"], tail="cut"), "loop-divided"
    cfgs = ctx.configs()
    if not cfgs:
        return None, None
    (cn, fld, ty), cfg = cfgs[k3 % len(cfgs)]
    rhs = {"index": "1", "bool": "False", "data": "0.0"}[ty]
    return S.write_config(f_proc, f_proc.body()[0].before(), cfg, fld, rhs), f"config-writing-first({cn}.{fld})"


@op("call_eqv", 1, group="config")
def _(p, ir, st_, ex, k1, k2, k3, ctx):
    s = _pick([s for s in st_ if s.kind == "Call"], k1)
    if not s:
        return None
    c = cursor_at(p, s.path)
    f_proc = c.subproc()
    var, kind = _callee_variant(ctx, f_proc, k2, k3)
    if var is None:
        return None
    return (lambda: S.call_eqv(p, c, var)), {"at": path_str(s.path), "callee": f_proc.name(), "variant": kind}


def apply_step_excl(prop, p, step, ctx):
    """apply_step, unless the step falls into a class excluded by a recorded known finding"""
    from .findings import excluded_step

    fid = excluded_step(prop, step, p)
    if fid:
        return None, "excluded", {"op": step[0], "finding": fid}
    return apply_step(p, step, ctx)
