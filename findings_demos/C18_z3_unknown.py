#!/venv/bin/python
"""Demonstration for known finding C18-z3-unknown: the same session (program + schedule) run several
times in ONE interpreter prints different procedures; the runs differ only in the ids of the symbols
they create.  z3 answers `unknown (incomplete quantifiers)` for one query of eliminate_dead_code in
some runs, Exo treats that as "cannot prove", and std.cleanup keeps a dead branch.
usage: cd /verif && /venv/bin/python findings_demos/C18_z3_unknown.py"""
import json, os, sys

ROOT = os.path.dirname(os.path.dirname(os.path.abspath(__file__)))
sys.path.insert(0, ROOT)
import z3
from exo.core.prelude import Sym
from exoverif.c18_child import run_session

S = json.load(open(os.path.join(ROOT, "findings_demos", "C18_z3_unknown_session.json")))
outs = []
for i in range(20):
    rec, p = run_session(0, S)
    outs.append(json.dumps(rec["steps"]))
    print(f"run {i}: symbol counter {Sym._unq_count}, z3 unknown verdicts {rec['z3_unknown']}, output #{sorted(set(outs)).index(outs[-1])}")
print("DIFFERENT OUTPUTS" if len(set(outs)) > 1 else "all runs identical")
