#!/bin/sh
# tools/seed_check.sh <seed-dir-name> <PROP> [tier]  -> runs ./check PROP against the seeded patch (scratch copy)
s="$1"; p="$2"; t="${3:-quick}"
cd /verif
out=/tmp/seedcheck_${s}_${p}.txt
tools/with_mutant.sh seeded/$s/patch.diff -- ./check $p --tier $t > $out 2>&1
echo "$s $p exit=$? $(grep -E "^$p tier" $out | cut -c1-160)"; grep -E "^VIOLATION" $out | head -3
