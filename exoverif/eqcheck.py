"""Equivalence oracle helpers: enumerate admissible control valuations of a procedure,
run the reference interpreter, compare final states under poison refinement."""
from __future__ import annotations

import itertools

from exo.core.LoopIR import LoopIR, T

from .interp import Interp, Unsafe, InterpLimit, POISON, ExactDomain
from .inputs import arg_kinds, build_args, run_proc, snapshot, refines, _mentions_stride


def ctrl_valuations(proc, size_max=6, idx_lo=-4, idx_hi=5, limit=8, pick=0):
    """all control valuations in the box that satisfy the non-stride assertions;
    returns (chosen list, total admissible)"""
    kinds = arg_kinds(proc)
    doms = []
    names = []
    syms = []
    for fa, (nm, k, t) in zip(proc.args, kinds):
        if k == "size":
            doms.append(range(1, size_max + 1))
        elif k == "index":
            doms.append(range(idx_lo, idx_hi + 1))
        elif k == "bool":
            doms.append((False, True))
        elif k == "stride":
            doms.append((1,))
        else:
            continue
        names.append(nm)
        syms.append(fa.name)
    preds = [p for p in proc.preds if not _mentions_stride(p)]
    it = Interp()
    ok = []
    for combo in itertools.product(*doms):
        env = dict(zip(syms, combo))
        try:
            if all(it._ctrl(p, env) is True for p in preds):
                ok.append(dict(zip(names, combo)))
        except Unsafe:
            continue
        except Exception:
            continue
        if len(ok) > 4000:
            break
    total = len(ok)
    if total <= limit:
        return ok, total
    # deterministic spread: always the first and last, the rest strided from `pick`
    step = max(1, total // limit)
    idxs = sorted({0, total - 1} | {(pick + j * step) % total for j in range(limit - 2)})
    return [ok[i] for i in idxs], total


class Outcome:
    __slots__ = ("bufs", "cfg", "unsafe", "limit", "steps")

    def __init__(self):
        self.bufs = self.cfg = self.unsafe = None
        self.limit = False
        self.steps = 0


def run_outcome(ir, val, dom=None, cfg_types=None, max_steps=30000, listener=None, par_order=None):
    o = Outcome()
    try:
        backs, cfg = run_proc(ir, val, dom, listener=listener, max_steps=max_steps, cfg_types=cfg_types, par_order=par_order)
        o.bufs, o.cfg = snapshot(backs, cfg)
    except Unsafe as u:
        o.unsafe = u
    except InterpLimit:
        o.limit = True
    except RecursionError:
        o.limit = True
    return o


def cfg_key_names(keys):
    """Sym keys reported by get_strictest_eqv_proc -> {(cfgname, field)}"""
    from exo.core.configs import reverse_config_lookup

    out = set()
    for k in keys:
        try:
            c, f = reverse_config_lookup(k)
            out.add((c.name(), f))
        except Exception:
            out.add(("?", str(k)))
    return out


def compare_outcomes(o0: Outcome, o1: Outcome, allowed_cfg=frozenset(), tol=None):
    """-> None if o1 refines o0, else (kind, detail)"""
    if o0.limit or o1.limit:
        return None
    if o0.unsafe is not None:
        return None  # input outside the original's safe domain: C03 material
    if o1.unsafe is not None:
        return ("unsafe:" + o1.unsafe.kind, str(o1.unsafe))
    r = refines(o0.bufs, o1.bufs, tol)
    if r is not None:
        n, f, a, b = r
        return ("buffer-mismatch", f"argument {n} flat[{f}]: original {a}, derived {b}")
    for k, v in o0.cfg.items():
        if k in allowed_cfg:
            continue
        if v is POISON:
            continue
        w = o1.cfg.get(k, POISON)
        if w is POISON or w != v:
            return ("config-mismatch", f"config {k[0]}.{k[1]}: original {v}, derived {w} (not in reported set {sorted(allowed_cfg)})")
    for k, w in o1.cfg.items():
        if k in allowed_cfg or k in o0.cfg:
            continue
        # derived writes a field the original never touched (and was not initialised)
        return ("config-mismatch", f"config {k[0]}.{k[1]} written by derived ({w}) but untouched by original")
    return None


def did_store(o: Outcome, val, ir):
    """True if the run changed any argument element or config field"""
    if o.bufs is None:
        return False
    try:
        args, backs = build_args(ir, val)
    except Exception:
        return True
    for n, b in backs.items():
        if list(b.data) != o.bufs.get(n):
            return True
    return bool(o.cfg) and o.cfg != _init_cfg(val)


def _init_cfg(val):
    out = {}
    for k, v in (val.get("config") or {}).items():
        c, f = k.split(".")
        out[(c, f)] = v
    return out


CFG_TYPES = {("CfgA", "s"): "data", ("CfgB", "t"): "data"}


def initial_config(cfgvals, present=True):
    """drawn ints -> initial configuration state for the fixed config pool"""
    if not present:
        return {}
    v = list(cfgvals) + [0] * 5
    return {
        "CfgA.a": v[0] % 5,
        "CfgA.s": (v[1] % 7) - 2,
        "CfgA.flag": bool(v[2] % 2),
        "CfgB.k": v[3] % 5,
        "CfgB.t": (v[4] % 5) - 1,
        "CfgA.b": (v[0] + v[3]) % 4,
    }
