"""C10 - configuration rewrites report every field they may change."""
from __future__ import annotations

import json

from ..common import Violation, Skip, run_cases, guarded
from .. import sched
from . import c01

PROP = "C10"
NVALS = 6
CFG_OPS = ("bind_config", "write_config", "delete_config", "call_eqv")


class _S:
    cfg_steps = 0
    reads_cfg = False


def after_step(p, q, desc, k, live, env):
    if desc["op"] in CFG_OPS:
        _S.cfg_steps += 1
    if desc["op"] == "call_eqv" and desc.get("variant") == "unrelated-lookalike":
        raise Violation(
            {"op": "call_eqv", "kind": "accepted-unrelated-callee"},
            f"call_eqv accepted a callee that is not derived from the called procedure (same text, different origin): {json.dumps(desc)}\n{c01.safe_str(q)}",
        )


def check_case(case):
    _S.cfg_steps = 0
    info = c01.check_schedule(case, PROP, NVALS, after_step=after_step)
    src = json.dumps(case["prog"])
    reads = "CfgA." in src or "CfgB." in src
    info["nontrivial"] = _S.cfg_steps > 0 and reads and "stores" in info["classes"]
    info["classes"].append(f"config-steps={min(_S.cfg_steps, 4)}")
    return info


def run(ctx):
    global NVALS
    c01.CTX = ctx
    NVALS = 6 if ctx.tier == "quick" else 12
    w = {"bind_config": 30, "write_config": 40, "delete_config": 40, "call_eqv": 40, "group:stdlib": 0, "group:storage": 1, "group:loop": 1, "group:core": 1,
         "reorder_stmts": 4, "fission": 3, "inline": 3, "lift_scope": 2, "fuse": 2, "specialize": 2, "simplify": 2}
    names = sched.op_names(weights=w)
    strat = c01.case_strategy(4 if ctx.tier == "quick" else 8, names, max_stmts=10, config_pct=100, calls=True)
    from ..common import run_systematic
    from ..gen.templates import distinct_step_cases

    val = {"fill": 1, "layout": 2, "cfg": [3, 5, 1, 2, 4], "pick": 7}
    cfg_ops = ["bind_config", "write_config", "delete_config", "call_eqv"]
    quick = ctx.tier == "quick"
    run_systematic(ctx, distinct_step_cases(ctx.shard, ctx.nshards, cfg_ops, val, params=(0, 1, 2) if quick else (0, 1, 2, 5, 7, 11), grid=(10, 8, 8), cap=200), guarded(ctx, check_case), keep_one_in=1, label="template-single-steps", presharded=True)
    run_cases(ctx, strat, guarded(ctx, check_case), ctx.budget(1600, 12800))
