RULE = (
    "Hypothesis draws a program from G with sub-procedure calls (window/dense/scalar/size/index/bool parameters, assertions incl. "
    "stride assertions) and builds instances with the tree's own inverse: every call is inlined (optionally followed by "
    "simplify / inline_window / divide_loop+simplify style perturbations), then replace() is attempted on every block of 1..4 "
    "statements at and around the inlined position with (a) the true callee, (b) a NEAR-MISS callee obtained by perturbing the "
    "callee's source (one index offset, one constant, a dropped else-branch, a changed config field, a strengthened assertion, a "
    "changed loop bound) and (c) unrelated callees of the pool. Whenever replace succeeds, the oracle is the reference interpreter "
    "(exact) with the callee executed from its body on all selected admissible inputs: final state equal to the program before "
    "replace (both directions), call-site monitors hold (callee assertions incl. stride assertions, shape equality, sizes >= 1, "
    "no aliasing), the statements outside the matched block are untouched, and inlining the new call is again equivalent. "
    "Failing to unify is never a violation (tallied). Non-trivial: a successful replace that inferred >=1 window argument with "
    "non-zero offset, a point/interval mix or a non-literal size. Distinct = digest(program, block, callee)."
)
ASSUMPTIONS = ["inline is used only to build candidate blocks; the oracle never relies on it"]
BOUNDS = {"block_len": "1..4", "valuations_per_case": 6}
