"""Input construction for the reference interpreter (and mirrored by the C harness).

A *valuation* is a JSON dict:
  {"ctrl": {argname: int|bool}, "fill": int, "layout": int, "config": {"Cfg.field": v}}
Each numeric argument gets its own backing buffer (Exo forbids aliased arguments);
window arguments are strided views with padding chosen by `layout`, subject to the
procedure's stride assertions.
"""
from __future__ import annotations

import itertools

from exo.core.LoopIR import LoopIR, T

from .interp import Buffer, View, Interp, Unsafe, POISON, ExactDomain


def arg_kinds(proc):
    out = []
    for fa in proc.args:
        t = fa.type
        if isinstance(t, T.Size):
            k = "size"
        elif isinstance(t, T.Index):
            k = "index"
        elif isinstance(t, T.Bool):
            k = "bool"
        elif isinstance(t, T.Stride):
            k = "stride"
        elif isinstance(t, T.Tensor):
            k = "window" if t.is_window else "tensor"
        elif t.is_real_scalar():
            k = "scalar"
        else:
            k = "other"
        out.append((str(fa.name), k, t))
    return out


def fill_value(fill, name, flat, typ, plain=False):
    """small, mostly distinct integers; a function of the argument NAME (stable under
    signature changes), the element position and the drawn fill parameter"""
    tn = type(typ).__name__
    argno = sum(ord(c) for c in name) % 7
    v = (flat * 3 + argno * 5 + fill * 7 + (flat // 4) * 2) % 13
    if plain:
        return v % 7
    if tn in ("UINT8", "UINT16"):
        return v % 7
    return v - 4


def _layouts(shape, layout):
    """candidate (offset, strides, total) for a window of `shape`; first is dense"""
    r = len(shape)
    dense = []
    s = 1
    for d in reversed(shape):
        dense.append(s)
        s *= d
    dense = tuple(reversed(dense))
    cands = [(0, dense, max(1, s))]
    if r == 0:
        return cands
    # padded row-major with inner stride k
    for inner, pad, off in ((1, 2, 3), (2, 1, 1), (3, 0, 2), (1, 0, 1)):
        st = []
        acc = inner
        for d in reversed(shape):
            st.append(acc)
            acc = acc * d + pad
        st = tuple(reversed(st))
        total = off + sum((d - 1) * x for d, x in zip(shape, st)) + 1 + 2
        cands.append((off, st, total))
    if r == 2:
        # column-major (permuted strides)
        st = (1, shape[0] + 1)
        total = 2 + (shape[0] - 1) * st[0] + (shape[1] - 1) * st[1] + 1 + 1
        cands.append((2, st, total))
    k = layout % len(cands)
    return cands[k:] + cands[:k]


def eval_shape(proc, t, ctrl_env):
    it = Interp()
    return tuple(it._ctrl(e, ctrl_env) for e in t.hi)


def build_args(proc, val, dom=None, override_values=None):
    """-> (args dict for Interp.run, backings {name: Buffer}, views {name: View})
    raises Unsafe('entry-assertion') if the valuation violates the assertions."""
    dom = dom or ExactDomain()
    ctrl = val.get("ctrl", {})
    fill = val.get("fill", 0)
    layout = val.get("layout", 0)
    env = {}
    args = {}
    backs = {}
    kinds = arg_kinds(proc)
    for fa, (nm, k, t) in zip(proc.args, kinds):
        if k in ("size", "index", "bool", "stride"):
            if nm not in ctrl:
                raise KeyError(nm)
            v = ctrl[nm]
            v = bool(v) if k == "bool" else int(v)
            env[fa.name] = v
            args[nm] = v
    # stride predicates restrict the window layouts: choose per-argument layouts that
    # satisfy all predicates (search the small product)
    numeric = [(i, fa, kinds[i]) for i, fa in enumerate(proc.args) if kinds[i][1] in ("scalar", "tensor", "window")]
    choices = []
    for i, fa, (nm, k, t) in numeric:
        if k == "scalar":
            choices.append([((), 0, (), 1)])
        else:
            shape = eval_shape(proc, t, env)
            for d in shape:
                if d < 1:
                    raise Unsafe("entry-assertion", f"argument {nm} has non-positive extent {shape}")
            if k == "tensor":
                c = _layouts(shape, 0)[0]
                choices.append([(shape, c[0], c[1], c[2])])
            else:
                if val.get("dense"):
                    c = _layouts(shape, 0)[0]
                    choices.append([(shape, c[0], c[1], c[2])])
                else:
                    choices.append([(shape, o, st, tot) for (o, st, tot) in _layouts(shape, layout + sum(ord(c) for c in nm) % 5)])
    stride_preds = [p for p in proc.preds if _mentions_stride(p)]
    chosen = None
    if stride_preds:
        it = Interp()
        n = 0
        for combo in itertools.product(*choices):
            n += 1
            if n > 400:
                break
            e2 = dict(env)
            for (i, fa, _), (shape, off, st, tot) in zip(numeric, combo):
                e2[fa.name] = View(None, off, st, shape, True)
            try:
                if all(it._ctrl(p, e2) is True for p in stride_preds):
                    chosen = combo
                    break
            except Exception:
                continue
        if chosen is None:
            raise Unsafe("entry-assertion", "no window layout satisfies the stride assertions")
    else:
        chosen = [c[0] for c in choices]
    for (i, fa, (nm, k, t)), (shape, off, st, tot) in zip(numeric, chosen):
        bt = t.basetype()
        buf = Buffer(tot, nm, bt, is_arg=True)
        for f in range(tot):
            data = val.get("data")
            if data is not None and nm in data and data[nm]:
                raw = data[nm][f % len(data[nm])]
            elif override_values is not None:
                raw = override_values(nm, f)
            else:
                raw = fill_value(fill, nm, f, bt, val.get("plain", False))
            buf.data[f] = dom.from_input(raw, bt)
        v = View(buf, off, st, shape, k == "window")
        env[fa.name] = v
        args[nm] = v
        backs[nm] = buf
    return args, backs


def _mentions_stride(e):
    if isinstance(e, LoopIR.StrideExpr):
        return True
    if isinstance(e, LoopIR.BinOp):
        return _mentions_stride(e.lhs) or _mentions_stride(e.rhs)
    if isinstance(e, LoopIR.USub):
        return _mentions_stride(e.arg)
    return False


def config_state(val, dom=None):
    dom = dom or ExactDomain()
    out = {}
    for k, v in (val.get("config") or {}).items():
        c, f = k.split(".")
        out[(c, f)] = v if isinstance(v, bool) else v
    return out


def run_proc(proc, val, dom=None, listener=None, par_order=None, max_steps=200000, cfg_types=None):
    """Run `proc` (LoopIR.proc) on valuation. -> (backs, final config dict).  Raises Unsafe."""
    dom = dom or ExactDomain()
    args, backs = build_args(proc, val, dom)
    cfg = {}
    for k, v in (val.get("config") or {}).items():
        c, f = k.split(".")
        if cfg_types and cfg_types.get((c, f)) == "data" and not isinstance(v, bool):
            v = dom.from_input(v, None)
        cfg[(c, f)] = v
    it = Interp(dom, cfg, listener, max_steps=max_steps, par_order=par_order)
    it.run(proc, args)
    return backs, it.config


def snapshot(backs, cfg):
    return {n: list(b.data) for n, b in backs.items()}, dict(cfg)


def refines(orig, new, tol=None):
    """orig/new: {name: [values]} -- where orig is defined, new must be defined and equal.
    -> None or (name, flat, expected, got)"""
    for n, od in orig.items():
        nd = new.get(n)
        if nd is None or len(nd) != len(od):
            return (n, -1, f"len {len(od)}", f"len {None if nd is None else len(nd)}")
        for f, (a, b) in enumerate(zip(od, nd)):
            if a is POISON:
                continue
            if b is POISON:
                return (n, f, a, b)
            if a != b:
                if tol is not None:
                    try:
                        if abs(float(a) - float(b)) <= tol * max(1.0, abs(float(a))):
                            continue
                    except Exception:
                        pass
                return (n, f, a, b)
    return None
