"""C05 - replace only substitutes true instances of the callee."""
from __future__ import annotations

import copy
import json
import re

from hypothesis import strategies as st

from ..common import Violation, Skip, run_cases, guarded, rejection_types
from ..gen.templates import programs_or_templates
from ..gen.programs import programs, build, render_program, render_proc, CONFIG_PRELUDE
from ..exoutil import exec_source
from .. import sched
from ..eqcheck import ctrl_valuations, run_outcome, compare_outcomes, initial_config, CFG_TYPES, did_store
from .c01 import safe_str
from . import c03

PROP = "C05"
CTX = None


def near_miss(callee_json, k1, k2):
    """perturb a callee's JSON (reusing C03's site enumeration on a pseudo-program)"""
    c = copy.deepcopy(callee_json)
    pseudo = {"main": c, "callees": []}
    ss = c03.sites(pseudo)
    kinds = [s for s in ss if s[0] in ("idx", "rhs", "hi", "lo", "dropguard", "win")]
    how = None
    if kinds:
        kind, path = kinds[k1 % len(kinds)]
        kinds_all = sorted({k for k, _ in ss})
        of_kind = [x for x in ss if x[0] == kind]
        want = of_kind.index((kind, path))
        # invert c03.perturb's (kind, site) selection:  k1' % len(kinds) -> kind,  (k1' // len(kinds) + k2) % n -> site
        kk = kinds_all.index(kind)
        q = (want - k2) % len(of_kind)
        pseudo, applied = c03.perturb(pseudo, [[kk + len(kinds_all) * q, k2]])
        c = pseudo["main"]
        how = applied
    if k2 % 4 == 3 or not kinds:
        szs = [a["name"] for a in c["args"] if a["kind"] in ("size", "index")]
        if szs:
            c["preds"] = list(c["preds"]) + [f"{szs[k1 % len(szs)]} <= 1" if k2 % 2 else f"{szs[k1 % len(szs)]} >= 3"]
            how = (how or []) + ["assert"]
    return c, how


def check_generated(case):
    import exo.stdlib.scheduling as S

    prog = case["prog"]
    if not prog["callees"]:
        raise Skip("no-callee")
    try:
        env, p0 = build(prog)
    except rejection_types():
        raise Skip("frontend-reject")
    ir0 = p0.INTERNAL_proc()
    st_, _ = sched.collect(ir0)
    calls = [s for s in st_ if s.kind == "Call"]
    if not calls:
        raise Skip("no-call")
    site = calls[case["call"] % len(calls)]
    fname = str(site.node.f.name)
    f_true = env[fname]
    nbody = len(site.node.f.body)
    try:
        p1 = S.inline(p0, sched.cursor_at(p0, site.path))
    except rejection_types():
        raise Skip("inline-rejected")
    # inline() leaves 'w = x[..]' aliases for window arguments; users write code directly on
    # the buffers, so dissolve the aliases the inlining introduced
    for _ in range(6):
        irx = p1.INTERNAL_proc()
        sx, _e = sched.collect(irx)
        ws = [w for w in sx if w.kind == "WindowStmt" and w.path[:-1] == site.path[:-1] and w.pos >= site.pos and w.pos < site.pos + 6 and str(w.node.name) in {str(a.name) for a in site.node.f.args}]
        if not ws:
            break
        try:
            p1 = S.inline_window(p1, sched.cursor_at(p1, ws[0].path))
        except rejection_types():
            break
    # optional perturbation of the inlined text
    sctx = sched.SchedCtx(env, prog)
    prep = []
    for step in case["prep"]:
        q, outcome, desc = sched.apply_step_excl(PROP, p1, step, sctx)
        if outcome == "accepted":
            p1 = q
            prep.append(desc["op"])
    # choose callee
    mode = case["mode"] % 4
    how = None
    if mode in (0, 1):
        f = f_true
        label = "true-callee"
    elif mode == 2:
        cj = next(c for c in prog["callees"] if c["name"] == fname)
        nm, how = near_miss(cj, case["k1"], case["k2"])
        try:
            g = exec_source((CONFIG_PRELUDE if prog.get("cfg") else "") + render_proc(nm))
            f = g[fname]
        except rejection_types():
            raise Skip("near-miss-callee-rejected")
        label = "near-miss:" + ",".join(how or ["none"])
    else:
        others = [c["name"] for c in prog["callees"] if c["name"] != fname]
        if not others:
            raise Skip("no-other-callee")
        f = env[others[case["k1"] % len(others)]]
        label = "other-callee"
        nbody = len(f.INTERNAL_proc().body)
    ir1 = p1.INTERNAL_proc()
    st1, _ = sched.collect(ir1)
    # candidate blocks: around the position of the former call
    cands = [s for s in st1 if s.path[:-1] == site.path[:-1]] or st1
    if not cands:
        raise Skip("no-block")
    # mostly the exact position of the former call, sometimes a neighbour
    if "start" in case:
        cands = [cands[case["start"] % len(cands)]]
    exact = [s for s in cands if s.path == site.path] if "start" not in case else cands
    start = exact[0] if exact and case["blk"] % 4 != 3 else cands[(case["blk"] // 4 + case["blk"]) % len(cands)]
    blen = [nbody, nbody, 1, 2, nbody + 1, 3][case["blen"] % 6]
    blen = max(1, min(blen, start.nsib - start.pos))
    blk = sched.cursor_at(p1, start.path).expand(0, blen - 1)
    import io, contextlib

    try:
        with contextlib.redirect_stdout(io.StringIO()):
            p2 = S.replace(p1, blk, f, quiet=True)
    except rejection_types() as e:
        if CTX is not None:
            CTX.op("replace:" + label.split(":")[0], "rejected")
        return {"nontrivial": False, "digest": None, "classes": ["unify-failed", label.split(":")[0]], "sample": None}
    except (KeyboardInterrupt, SystemExit, MemoryError):
        raise
    except BaseException as e:  # noqa  internal error while unifying: not a wrong substitution
        if CTX is not None:
            CTX.op("replace:" + label.split(":")[0], "internal")
        return {"nontrivial": False, "digest": None, "classes": ["unify-internal-error:" + type(e).__name__, label.split(":")[0]], "sample": None}
    if CTX is not None:
        CTX.op("replace:" + label.split(":")[0], "accepted")
    ir2 = p2.INTERNAL_proc()
    where = f"replace(block at {sched.path_str(start.path)} len {blen}, {f.name()} [{label}]) after inline{prep}\n--- callee:\n{safe_str(f)}\n--- before replace:\n{safe_str(p1)}\n--- after replace:\n{safe_str(p2)}"
    # statements outside the matched block must be untouched
    n1 = len(sched.collect(ir1)[0])
    v = case["val"]
    vals, total = ctrl_valuations(ir1, limit=6, pick=v["pick"])
    cfg0 = initial_config(v["cfg"], present=prog.get("cfg", False))
    n_cmp = 0
    stores = False
    for c in vals:
        fv = {"ctrl": c, "fill": v["fill"], "layout": v["layout"], "config": cfg0}
        o1 = run_outcome(ir1, fv, cfg_types=CFG_TYPES)
        if o1.unsafe is not None or o1.limit:
            continue
        o2 = run_outcome(ir2, fv, cfg_types=CFG_TYPES)
        bad = compare_outcomes(o1, o2)
        if not bad and o2.bufs is not None:
            bad = compare_outcomes(o2, o1)
        if bad:
            raise Violation({"kind": bad[0], "callee": label.split(":")[0]}, f"{where}\ninput {json.dumps(fv)}: {bad[1]}")
        n_cmp += 1
        stores = stores or did_store(o1, fv, ir1)
    if n_cmp == 0:
        raise Skip("no-comparable-input")
    # inline of the new call is again equivalent
    st2, _ = sched.collect(ir2)
    newcalls = [s for s in st2 if s.kind == "Call" and s.node.f is f.INTERNAL_proc()]
    if newcalls:
        try:
            p3 = S.inline(p2, sched.cursor_at(p2, newcalls[0].path))
            ir3 = p3.INTERNAL_proc()
            for c in vals[:3]:
                fv = {"ctrl": c, "fill": v["fill"], "layout": v["layout"], "config": cfg0}
                o1 = run_outcome(ir1, fv, cfg_types=CFG_TYPES)
                if o1.unsafe is not None or o1.limit:
                    continue
                o3 = run_outcome(ir3, fv, cfg_types=CFG_TYPES)
                bad = compare_outcomes(o1, o3)
                if bad:
                    raise Violation({"kind": "inline-of-replaced:" + bad[0], "callee": label.split(":")[0]}, f"{where}\n--- inlined again:\n{safe_str(p3)}\ninput {json.dumps(fv)}: {bad[1]}")
        except rejection_types():
            pass
    call_txt = ""
    if newcalls:
        call_txt = str(newcalls[0].node)
    interesting = bool(re.search(r"\[[^\]]*[1-9a-z][^\]]*:", call_txt)) or bool(re.search(r"\[[^\]:]+,[^\]]*:", call_txt)) or bool(re.search(r"\((\w+ [-+*/] )", call_txt))
    return {
        "nontrivial": interesting and stores,
        "digest": {"p": safe_str(p1), "b": sched.path_str(start.path), "n": blen, "f": safe_str(f)},
        "classes": ["replaced", label.split(":")[0], f"blen={blen}", f"prep={len(prep)}"],
        "sample": {"callee": safe_str(f), "before": safe_str(p1), "after": safe_str(p2), "kind": label},
    }

# --------------------------------------------------------------------------- #
# library instructions: every x86 @instr J is offered every block that is an instance of the
# body of instruction I (obtained by inlining I in the C14 wrapper)

_instr_cache = {}


def _instr_instance(I, variant):
    """-> (wrapper w, p1 = w with the call of I inlined and aliases dissolved, (lo, hi) block range)"""
    import exo.stdlib.scheduling as S
    from . import c14

    key = (I, variant)
    if key in _instr_cache:
        return _instr_cache[key]
    try:
        w, info = c14.wrapper_for(I, variant)
        ir = w.INTERNAL_proc()
        pos, n_post = info["call_pos"], info["n_post"]
        n0 = len(ir.body)
        p1 = S.inline(w, w.body()[pos])
        for _ in range(8):
            st1, _e = sched.collect(p1.INTERNAL_proc())
            ws = [x for x in st1 if x.kind == "WindowStmt" and len(x.path) == 1]
            if not ws:
                break
            p1 = S.inline_window(p1, sched.cursor_at(p1, ws[0].path))
        n1 = len(p1.INTERNAL_proc().body)
        res = (w, info, p1, (pos, n1 - n_post - 1))
    except Skip:
        res = None
    except rejection_types():
        res = None
    _instr_cache[key] = res
    return res


def check_instr_pair(case):
    import exo.stdlib.scheduling as S
    import exo.platforms.x86 as X
    import io, contextlib
    from . import c14

    names = c14.instr_names()
    I, J = names[case["i"] % len(names)], names[case["j"] % len(names)]
    inst = _instr_instance(I, case["variant"] % 3)
    if inst is None:
        raise Skip("no-instance")
    w, info, p1, (lo, hi) = inst
    if hi < lo:
        raise Skip("empty-body")
    f = getattr(X, J)
    blk = p1.body()[lo : hi + 1]
    label = "instr-same" if I == J else "instr-other"
    try:
        with contextlib.redirect_stdout(io.StringIO()):
            p2 = S.replace(p1, blk, f, quiet=True)
    except rejection_types():
        if CTX is not None:
            CTX.op("replace:" + label, "rejected")
        return {"nontrivial": False, "digest": None, "classes": ["unify-failed", label], "sample": None}
    except (KeyboardInterrupt, SystemExit, MemoryError):
        raise
    except BaseException as e:  # noqa
        if CTX is not None:
            CTX.op("replace:" + label, "internal")
        return {"nontrivial": False, "digest": None, "classes": ["unify-internal-error:" + type(e).__name__, label], "sample": None}
    if CTX is not None:
        CTX.op("replace:" + label, "accepted")
    ir1, ir2 = p1.INTERNAL_proc(), p2.INTERNAL_proc()
    where = f"replace(instance of {I}, {J})\n--- wrapper with {I} inlined:\n{safe_str(p1)}\n--- after replace:\n{safe_str(p2)}\n--- {J}:\n{safe_str(f)}"
    adm = c14.admissible_sizes(w.INTERNAL_proc(), info["sizes"]) if info["sizes"] else [{}]
    n_cmp = 0
    for ctrl in adm[:16]:
        for fill in (1, 3):
            fv = {"ctrl": ctrl, "fill": fill, "layout": 0, "dense": True, "config": {}}
            o1 = run_outcome(ir1, fv)
            if o1.unsafe is not None or o1.limit:
                continue
            o2 = run_outcome(ir2, fv)
            bad = compare_outcomes(o1, o2)
            if not bad and o2.bufs is not None:
                bad = compare_outcomes(o2, o1)
            if bad:
                raise Violation({"kind": bad[0], "callee": label, "instr": J}, f"{where}\ninput {json.dumps(fv)}: {bad[1]}")
            n_cmp += 1
    if n_cmp == 0:
        raise Skip("no-comparable-input")
    return {
        "nontrivial": True,
        "digest": {"i": I, "j": J, "v": case["variant"] % 3},
        "classes": ["replaced", label],
        "sample": {"instance_of": I, "replaced_by": J, "after": safe_str(p2)},
    }


# --------------------------------------------------------------------------- #
# hand-written near-miss blocks offered directly (no inlining): the block differs from an
# instance of the callee in WHICH BUFFER one of several accesses goes to


def direct_cases():
    from ..gen.templates import _arg

    def callee(body, extra_args=()):
        return {"name": "kern", "args": [_arg("dst", "window", dims=["4"], written=True), _arg("src", "window", dims=["8"], written=False)] + list(extra_args), "preds": [], "body": body}

    def main(stmt):
        return {"name": "foo", "args": [_arg("x", "tensor", dims=["8"]), _arg("z", "tensor", dims=["8"]), _arg("y", "tensor", dims=["4"]), _arg("w", "tensor", dims=["4"])], "preds": [], "body": [["assign", "w", ["0"], "1.0"], stmt, ["assign", "w", ["1"], "y[0]"]]}

    loop = lambda body: ["for", "i", "0", "4", body, "seq"]
    bodies = [
        # (callee body, [(block, is_instance)...])
        ([loop([["assign", "dst", ["i"], "src[i] + src[i + 1]"]])], [
            (loop([["assign", "y", ["i"], "x[i] + x[i + 1]"]]), True),
            (loop([["assign", "y", ["i"], "x[i] + z[i + 1]"]]), False),
            (loop([["assign", "y", ["i"], "z[i] + x[i + 1]"]]), False),
            (loop([["assign", "y", ["i"], "x[i + 2] + x[i + 3]"]]), True),
        ]),
        ([loop([["assign", "dst", ["i"], "src[i]"], ["reduce", "dst", ["i"], "src[i + 4]"]])], [
            (loop([["assign", "y", ["i"], "x[i]"], ["reduce", "y", ["i"], "x[i + 4]"]]), True),
            (loop([["assign", "y", ["i"], "x[i]"], ["reduce", "w", ["i"], "x[i + 4]"]]), False),
            (loop([["assign", "y", ["i"], "x[i]"], ["reduce", "y", ["i"], "z[i + 4]"]]), False),
        ]),
        ([loop([["assign", "dst", ["i"], "src[i] + dst[i]"]])], [
            (loop([["assign", "y", ["i"], "x[i] + y[i]"]]), True),
            (loop([["assign", "y", ["i"], "x[i] + w[i]"]]), False),
            (loop([["assign", "y", ["i"], "y[i] + y[i]"]]), False),
        ]),
        ([loop([["if", "i < 2", [["assign", "dst", ["i"], "src[i]"]], [["assign", "dst", ["i"], "src[i + 1]"]]]])], [
            (loop([["if", "i < 2", [["assign", "y", ["i"], "x[i]"]], [["assign", "y", ["i"], "x[i + 1]"]]]]), True),
            (loop([["if", "i < 2", [["assign", "y", ["i"], "x[i]"]], [["assign", "w", ["i"], "x[i + 1]"]]]]), False),
            (loop([["if", "i < 2", [["assign", "y", ["i"], "x[i]"]], [["assign", "y", ["i"], "z[i + 1]"]]]]), False),
        ]),
    ]
    for cb, blocks in bodies:
        for blk, inst in blocks:
            yield {"kind": "direct", "prog": {"prec": "f32", "cfg": False, "callees": [callee(cb)], "main": main(blk)}, "start": 1, "blen": 1, "instance": inst}
    # a bool / index / size parameter that occurs several times in the callee must be bound to ONE
    # expression of the block
    def main2(stmts):
        return {"name": "foo", "args": [_arg("m", "size"), _arg("x", "tensor", dims=["8"]), _arg("z", "tensor", dims=["8"]), _arg("y", "tensor", dims=["4"]), _arg("w", "tensor", dims=["4"])], "preds": ["m <= 8"], "body": [["assign", "w", ["0"], "1.0"]] + stmts + [["assign", "w", ["1"], "y[0]"]]}

    def two(g1, g2, o1="0", o2="4"):
        return [loop([["if", g1, [["assign", "y", ["i"], f"x[i + {o1}]"]], []]]), loop([["if", g2, [["reduce", "y", ["i"], f"x[i + {o2}]"]], []]])]

    kb = callee([loop([["if", "en", [["assign", "dst", ["i"], "src[i]"]], []]]), loop([["if", "en", [["reduce", "dst", ["i"], "src[i + 4]"]], []]])], [{"name": "en", "kind": "bool"}])
    for g1, g2, inst in (("m < 4", "m < 4", True), ("m < 4", "m < 6", False), ("m < 4", "m > 4", False), ("m < 4", "4 < m", False), ("m + 1 < 4", "m + 2 < 4", False)):
        yield {"kind": "direct", "prog": {"prec": "f32", "cfg": False, "callees": [kb], "main": main2(two(g1, g2))}, "start": 1, "blen": 2, "instance": inst, "ctrl": [{"m": v} for v in range(1, 9)]}
    # an if without else in the callee must not absorb an if WITH an else in the block
    km = callee([loop([["if", "i < k", [["assign", "dst", ["i"], "src[i]"]], []]])], [{"name": "k", "kind": "index", "range": (0, 8)}])
    km["preds"] = ["k >= 0 and k <= 8"]
    for blk, inst in (
        ([loop([["if", "i < m", [["assign", "y", ["i"], "x[i]"]], []]])], True),
        ([loop([["if", "i < m", [["assign", "y", ["i"], "x[i]"]], [["assign", "y", ["i"], "0.0"]]]])], False),
        ([loop([["if", "i < m", [["assign", "y", ["i"], "x[i]"]], [["pass"]]]])], True),
    ):
        yield {"kind": "direct", "prog": {"prec": "f32", "cfg": False, "callees": [km], "main": main2(blk)}, "start": 1, "blen": 1, "instance": inst, "ctrl": [{"m": v} for v in range(1, 9)]}
    ki = callee([loop([["if", "i < k", [["assign", "dst", ["i"], "src[i]"]], []]]), loop([["if", "i < k", [["reduce", "dst", ["i"], "src[i + 4]"]], []]])], [{"name": "k", "kind": "index", "range": (0, 8)}])
    ki["preds"] = ["k >= 0 and k <= 8"]
    for g1, g2, inst in (("i < m", "i < m", True), ("i < m", "i < m - 1", False), ("i < m", "i < 2", False), ("i < 3", "i < 2", False)):
        yield {"kind": "direct", "prog": {"prec": "f32", "cfg": False, "callees": [ki], "main": main2(two(g1, g2))}, "start": 1, "blen": 2, "instance": inst, "ctrl": [{"m": v} for v in range(1, 9)]}


def check_direct(case):
    import exo.stdlib.scheduling as S
    import io, contextlib

    env, p0 = build(case["prog"])
    f = env["kern"]
    blk = p0.body()[case["start"] : case["start"] + case["blen"]]
    label = "direct-instance" if case["instance"] else "direct-near-miss"
    try:
        with contextlib.redirect_stdout(io.StringIO()):
            p2 = S.replace(p0, blk, f, quiet=True)
    except rejection_types():
        if CTX is not None:
            CTX.op("replace:" + label, "rejected")
        return {"nontrivial": False, "digest": None, "classes": ["unify-failed", label], "sample": None}
    except (KeyboardInterrupt, SystemExit, MemoryError):
        raise
    except BaseException as e:  # noqa
        if CTX is not None:
            CTX.op("replace:" + label, "internal")
        return {"nontrivial": False, "digest": None, "classes": ["unify-internal-error:" + type(e).__name__, label], "sample": None}
    if CTX is not None:
        CTX.op("replace:" + label, "accepted")
    ir0, ir2 = p0.INTERNAL_proc(), p2.INTERNAL_proc()
    where = f"replace(block {case['start']}, kern) [{label}]\n--- callee:\n{safe_str(f)}\n--- before replace:\n{safe_str(p0)}\n--- after replace:\n{safe_str(p2)}"
    for fill, ctrl in [(f, c) for f in (1, 2, 4) for c in case.get("ctrl", [{}])]:
        fv = {"ctrl": ctrl, "fill": fill, "layout": 0, "config": {}}
        o1 = run_outcome(ir0, fv)
        if o1.unsafe is not None or o1.limit:
            continue
        o2 = run_outcome(ir2, fv)
        bad = compare_outcomes(o1, o2) or (compare_outcomes(o2, o1) if o2.bufs is not None else None)
        if bad:
            raise Violation({"kind": bad[0], "callee": label}, f"{where}\ninput {json.dumps(fv)}: {bad[1]}")
    return {"nontrivial": True, "digest": {"p": safe_str(p0)}, "classes": ["replaced", label], "sample": {"callee": safe_str(f), "before": safe_str(p0), "after": safe_str(p2), "kind": label}}


def check_case(case):
    """dispatch on the case kind (the worker replays / shrinks through this entry point)"""
    if case.get("kind") == "instr":
        return check_instr_pair(case)
    if case.get("kind") == "direct":
        return check_direct(case)
    return check_generated(case)


check_any = check_case


def case_strategy():
    prep = st.tuples(st.sampled_from(["simplify", "inline_window", "simplify", "divide_loop", "reorder_stmts", "unroll_loop", "cut_loop", "shift_loop"]), st.integers(0, 20), st.integers(0, 11), st.integers(0, 23)).map(list)
    return st.fixed_dictionaries(
        {
            "prog": programs_or_templates(12, max_stmts=9, config_pct=15, calls=True, force_call=True),
            "call": st.integers(0, 5),
            "prep": st.lists(prep, min_size=0, max_size=2),
            "mode": st.integers(0, 3),
            "k1": st.integers(0, 30),
            "k2": st.integers(0, 11),
            "blk": st.integers(0, 8),
            "blen": st.integers(0, 5),
            "val": st.fixed_dictionaries({"fill": st.integers(0, 5), "layout": st.integers(0, 5), "cfg": st.lists(st.integers(0, 20), min_size=5, max_size=5), "pick": st.integers(0, 50)}),
        }
    )


def run(ctx):
    global CTX
    CTX = ctx
    from ..common import run_systematic
    from ..gen.templates import TEMPLATES

    def sys_cases():
        val = {"fill": 1, "layout": 2, "cfg": [3, 5, 1, 2, 4], "pick": 7}
        for t in TEMPLATES:
            for tk in (0, 1, 2):
                prog = t(tk)
                if not prog["callees"]:
                    continue
                for call in range(2):
                    for mode in (0, 2):
                        for start in range(6):
                            for blen in (0, 2, 3, 4):
                                for k1, k2 in ((0, 0), (1, 1), (2, 3), (3, 2)) if mode == 2 else ((0, 0),):
                                    yield {"prog": prog, "call": call, "prep": [], "mode": mode, "k1": k1, "k2": k2, "blk": 0, "start": start, "blen": blen, "val": val}

    run_systematic(ctx, sys_cases(), guarded(ctx, check_case), keep_one_in=2 if ctx.tier == "quick" else 1, label="template-blocks")

    def instr_pairs():
        from . import c14

        n = len(c14.instr_names())
        for v in (0, 1, 2):
            for i in range(n):
                for j in range(n):
                    yield {"kind": "instr", "i": i, "j": j, "variant": v}

    # shard by instruction I (the inlined instance is cached per process)
    def mine(cases):
        for c in cases:
            if c["i"] % ctx.nshards == ctx.shard:
                yield c

    run_systematic(ctx, mine(instr_pairs()), guarded(ctx, check_any), keep_one_in=1, label="x86-instr-pairs", presharded=True)
    run_systematic(ctx, direct_cases(), guarded(ctx, check_any), keep_one_in=1, label="direct-near-miss-blocks")
    run_cases(ctx, case_strategy(), guarded(ctx, check_case), ctx.budget(3000, 24000))
