RULE = (
    "Same generator/driver as C02, weighted to allocations in loops and branches, windows on allocations, early last use, "
    "DRAM/DRAM_STACK/DRAM_STATIC memories, negative index arithmetic and const-qualified arguments reaching callees; 0-3 schedule "
    "steps. The emitted C is built with gcc -O1 -fsanitize=address,undefined -fno-sanitize-recover=all, LeakSanitizer and a "
    "counting malloc/free wrapper, and run on admissible inputs. Violation: any ASan/UBSan/LSan report (out-of-bounds, "
    "use-after-free, double free, signed overflow, division by zero, leak), a non-zero live-block count when the procedure "
    "returns, a free of a pointer that is not live, or a gcc error about discarded const qualifiers / incompatible pointer types "
    "in the emitted text. Non-trivial: the C text has >=1 heap allocation, or a possibly-negative index sub-expression (/, %, "
    "subtraction), or a const-qualified parameter passed on to a callee. Distinct = digest(program, accepted steps)."
)
ASSUMPTIONS = [
    "inputs are valid for the procedure (interpreter monitors quiet), so any sanitizer report is the generated code's fault",
    "gcc 12 sanitizers are sound for the reported classes",
]
BOUNDS = {"valuations_per_program": 3, "steps": "0..3"}
