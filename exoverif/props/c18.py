"""C18 - scheduling and compilation are deterministic."""
from __future__ import annotations

import json
import os
import subprocess
import sys

from hypothesis import strategies as st

from ..common import Violation, Skip, run_cases, guarded
from ..gen.programs import programs, render_program
from .. import sched
from .c01 import step_strategy

PROP = "C18"
CTX = None
ROOT = os.path.dirname(os.path.dirname(os.path.dirname(os.path.abspath(__file__))))


def run_child(sessions, hashseed, preroll, junk, reverse):
    env = dict(os.environ, PYTHONHASHSEED=str(hashseed))
    env["PYTHONPATH"] = ROOT + (os.pathsep + env["PYTHONPATH"] if env.get("PYTHONPATH") else "")
    req = {"sessions": sessions, "preroll": preroll, "junk": junk, "reverse": reverse}
    p = subprocess.run([sys.executable, "-m", "exoverif.c18_child"], input=json.dumps(req), capture_output=True, text=True, env=env, cwd=ROOT, timeout=600)
    if p.returncode != 0:
        raise RuntimeError("C18 child failed: " + p.stderr[-1500:])
    return json.loads(p.stdout[p.stdout.index("[") :])


def check_case(case):
    sessions = case["sessions"]
    if not sessions:
        raise Skip("empty")
    v = case["variants"]
    base = run_child(sessions, 0, 0, 0, False)
    variants = [
        ("PYTHONHASHSEED=1", run_child(sessions, 1, 0, 0, False)),
        (f"PYTHONHASHSEED={v['seed']}, preroll={v['preroll']} Syms, {v['junk']} unrelated procs first", run_child(sessions, v["seed"], v["preroll"], v["junk"], False)),
        (f"PYTHONHASHSEED={v['seed'] + 7}, sessions processed in reverse order", run_child(sessions, v["seed"] + 7, 3, 1, True)),
    ]
    nontriv = []
    classes = []
    for sid, b in enumerate(base):
        if b["err"]:
            classes.append("frontend-reject")
            continue
        for name, res in variants:
            r = res[sid]
            where = f"session {sid}, variant [{name}] vs baseline [PYTHONHASHSEED=0]\nprogram:\n{render_program(sessions[sid]['prog'])}\nsteps: {sessions[sid]['steps']}"
            if r["err"] != b["err"]:
                raise Violation({"kind": "frontend-outcome-differs"}, f"{where}: {b['err']} vs {r['err']}")
            for k, (sb, sr) in enumerate(zip(b["steps"], r["steps"])):
                if sb[0] != sr[0]:
                    raise Violation({"kind": "step-outcome-differs", "op": sb[0].split(":")[0]}, f"{where}\nstep {k}: outcome {sb[0]!r} vs {sr[0]!r}")
                if sb[1] != sr[1]:
                    raise Violation({"kind": "printed-proc-differs", "op": sb[0]}, f"{where}\nafter step {k} ({sb[0]}):\n--- baseline:\n{sb[1]}\n--- variant:\n{sr[1]}")
            if b["c"] != r["c"]:
                raise Violation({"kind": "c-text-differs"}, f"{where}\n--- baseline .c:\n{(b['c'] or '')[-1500:]}\n--- variant .c:\n{(r['c'] or '')[-1500:]}")
            if b["h"] != r["h"]:
                raise Violation({"kind": "h-text-differs"}, f"{where}\n--- baseline .h:\n{(b['h'] or '')[-1200:]}\n--- variant .h:\n{(r['h'] or '')[-1200:]}")
        acc = [s[0] for s in b["steps"][1:] if ":" not in s[0]]
        compiled = b["c"] is not None and not str(b["c"]).startswith("EXC:")
        classes.append("compiled" if compiled else "compile-rejected")
        for a in acc:
            classes.append("op:" + a)
        if acc and compiled:
            nontriv.append({"p": render_program(sessions[sid]["prog"]), "s": acc})
    return {
        "nontrivial": False,
        "digest": None,
        "classes": classes,
        "sample": {"session_program": render_program(sessions[0]["prog"]), "steps": sessions[0]["steps"], "variants": [n for n, _ in variants]},
        "_nontriv": nontriv,
    }


def case_strategy(names):
    sess = st.fixed_dictionaries(
        {
            "prog": programs(max_stmts=9),
            "steps": st.lists(step_strategy(names), min_size=0, max_size=4),
            "also_callees": st.booleans(),
            "rev_procs": st.booleans(),
        }
    )
    return st.fixed_dictionaries(
        {
            "sessions": st.lists(sess, min_size=8, max_size=8),
            "variants": st.fixed_dictionaries({"seed": st.integers(2, 5000), "preroll": st.integers(1, 400), "junk": st.integers(0, 4)}),
        }
    )


def run(ctx):
    global CTX
    CTX = ctx
    from ..common import digest

    names = sched.op_names(unsafe=True, weights={"unroll_buffer": 6, "lift_alloc": 6, "fission": 6, "stage_mem": 6, "extract_subproc": 5, "remove_loop": 5, "unroll_loop": 5, "specialize": 4})

    def chk(case):
        info = check_case(case)
        for d in info.pop("_nontriv", []):
            ctx.nontrivial.add(digest(d))
        if len(ctx.samples) < 2:
            ctx.samples.append(info["sample"])
        ctx.evaluations += len(case["sessions"]) - 1
        return info

    run_cases(ctx, case_strategy(names), guarded(ctx, chk), ctx.budget(48, 1600))
