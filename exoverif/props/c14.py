"""C14 - library instructions do what their Exo bodies say."""
from __future__ import annotations

import itertools
import json

from hypothesis import strategies as st

from exo.core.LoopIR import LoopIR, T

from ..common import Violation, Skip, run_cases, guarded, rejection_types
from ..exoutil import exec_source
from ..charness import emit_c, CompileRejected, make_driver, build_and_run, parse_output, sanitizer_kind
from ..interp import MachineDomain, POISON, Unsafe, InterpLimit, Interp
from ..inputs import arg_kinds
from ..eqcheck import run_outcome

PROP = "C14"
CTX = None
_cache = {}

LOADS = {("AVX2", "F32"): "mm256_loadu_ps", ("AVX2", "F64"): "mm256_loadu_pd", ("AVX2", "UINT16"): "mm256_loadu_si256", ("AVX512", "F32"): "mm512_loadu_ps"}
STORES = {("AVX2", "F32"): "mm256_storeu_ps", ("AVX2", "F64"): "mm256_storeu_pd", ("AVX2", "UINT16"): "mm256_storeu_si256", ("AVX512", "F32"): "mm512_storeu_ps"}
PNAME = {"F32": "f32", "F64": "f64", "UINT16": "ui16", "Num": "f32"}


def instr_names():
    import exo.platforms.x86 as X
    from exo import Procedure

    return sorted(n for n in dir(X) if isinstance(getattr(X, n), Procedure) and getattr(X, n).is_instr())


def wrapper_for(name, variant=0):
    """-> (Procedure wrapper, info) built from the instruction's signature.

    variant selects the window placement of the operands:
      0  DRAM operand = interior slice of a 1-d array, register operand = whole register
      1  DRAM operand = slice of a row of a 2-d array (non-zero row and column offset),
         register operand = row of a 2-d register array
      2  DRAM operand = full row (column offset 0) of a 2-d array, register operand = row of a
         3-d register array
    """
    key = (name, variant)
    if key in _cache:
        return _cache[key]
    import exo.platforms.x86 as X

    ins = getattr(X, name)
    ir = ins.INTERNAL_proc()
    PAD = 3
    sig, pre, call, post, asserts = [], [], [], [], []
    sizes = []
    place = {}
    for a in ir.args:
        t = a.type
        nm = str(a.name)
        if isinstance(t, (T.Size, T.Index)) and name == "prefetch":
            call.append("3")  # _mm_prefetch needs a compile-time constant hint
        elif isinstance(t, (T.Size, T.Index)):
            sig.append(f"{nm}: size" if isinstance(t, T.Size) else f"{nm}: index")
            call.append(nm)
            sizes.append(nm)
        elif isinstance(t, T.Tensor):
            bt = type(t.basetype()).__name__
            pn = PNAME[bt]
            dims = [str(h) for h in t.hi]
            if len(dims) != 1:
                raise Skip("rank")
            L = dims[0]
            mem = a.mem.name() if a.mem else "DRAM"
            # (start offset of the operand's window in the flat backing array, window length)
            place[f"d_{nm}"] = {0: (str(PAD), L), 1: (f"({L} + 4) + 2", L), 2: (f"2 * ({L})", L)}[variant]
            if variant == 0:
                sig.append(f"d_{nm}: {pn}[{L} + {2 * PAD}]")
                dwin = f"d_{nm}[{PAD}:{PAD} + {L}]"
                rdecl, rwin = f"r_{nm}: {pn}[{L}] @ {mem}", f"r_{nm}"
            elif variant == 1:
                sig.append(f"d_{nm}: {pn}[3, {L} + 4]")
                dwin = f"d_{nm}[1, 2:2 + {L}]"
                rdecl, rwin = f"r_{nm}: {pn}[2, {L}] @ {mem}", f"r_{nm}[1, 0:{L}]"
            else:
                sig.append(f"d_{nm}: {pn}[4, {L}]")
                dwin = f"d_{nm}[2, 0:{L}]"
                rdecl, rwin = f"r_{nm}: {pn}[2, 2, {L}] @ {mem}", f"r_{nm}[1, 0, 0:{L}]"
            if mem in ("AVX2", "AVX512"):
                pre.append(rdecl)
                pre.append(f"{LOADS[(mem, bt)]}({rwin}, {dwin})")
                post.append(f"{STORES[(mem, bt)]}({dwin}, {rwin})")
                call.append(rwin)
            else:
                call.append(dwin)
        elif t.is_real_scalar():
            pn = PNAME[type(t).__name__]
            sig.append(f"s_{nm}: {pn}")
            call.append(f"s_{nm}")
        else:
            raise Skip("arg-kind")
    for p in ir.preds:
        s = str(p)
        if "stride(" not in s and name != "prefetch":
            asserts.append(f"assert {s}")
    lines = ["@proc", f"def w_{name}({', '.join(sig)}):"] + ["    " + l for l in asserts + pre + [f"{name}({', '.join(call)})"] + post]
    src = "from exo.platforms.x86 import *\n" + "\n".join(lines) + "\n"
    g = exec_source(src)
    w = g[f"w_{name}"]
    info = {"sizes": sizes, "src": "\n".join(lines), "is_div": "div" in name, "prefix": any(s in ("bound", "N") for s in sizes), "place": place, "call_pos": len(pre), "n_post": len(post)}
    _cache[key] = (w, info)
    return w, info


def admissible_sizes(wir, sizes):
    it = Interp()
    syms = {str(a.name): a.name for a in wir.args}
    out = []
    for combo in itertools.product(*[range(1, 17) for _ in sizes]):
        env = {syms[n]: v for n, v in zip(sizes, combo)}
        try:
            if all(it._ctrl(p, env) is True for p in wir.preds):
                out.append(dict(zip(sizes, combo)))
        except Exception:
            pass
    # (prefetch: 0 is excluded by the size type)
    return out


def check_case(case):
    names = instr_names()
    name = names[case["instr"] % len(names)]
    try:
        w, info = wrapper_for(name, case.get("variant", 0) % 3)
    except rejection_types() as e:
        raise Violation({"kind": "wrapper-rejected", "instr": name}, f"the generated caller of {name} is rejected by the front end: {type(e).__name__}: {str(e)[:300]}")
    wir = w.INTERNAL_proc()
    adm = admissible_sizes(wir, info["sizes"]) if info["sizes"] else [{}]
    if not adm:
        raise Skip("no-admissible-size")
    kinds = arg_kinds(wir)
    vals = []
    for k, vec in enumerate(case["vecs"]):
        ctrl = adm[(case["pick"] + k * 5) % len(adm)]
        data = {}
        for nm, kd, t in kinds:
            if kd in ("tensor", "window", "scalar"):
                bt = type(t.basetype()).__name__
                # every operand gets its own contents (the drawn vector rotated and shifted per
                # operand): with identical operands a store that never happens, or a swapped
                # source, would be invisible
                j = len(data)
                r = (5 * j) % len(vec)
                xs = [v + (0.25 * j if v == v and abs(v) < 1e6 else 0.0) for v in (vec[r:] + vec[:r])]
                # ... except that every third lane repeats the drawn vector itself, so that lanes
                # where two operands are exactly equal (ties of comparisons/selects) also occur
                xs = [vec[l] if l % 3 == 0 and (j + l // 3 + k) % 3 != 0 else x for l, x in enumerate(xs)]
                if bt == "UINT16":
                    data[nm] = [int(abs(v) * 997) % 32768 for v in xs]  # no ui16 overflow: x + y stays representable
                else:
                    data[nm] = [float(v) for v in xs]
                if info["is_div"] and nm.endswith("_y"):
                    data[nm] = [v if abs(v) > 1e-3 else 1.5 for v in data[nm]]
        vals.append({"ctrl": ctrl, "fill": 0, "layout": 0, "dense": True, "data": data, "config": {}})
    dom = MachineDomain()
    good = []
    for fv in vals:
        o = run_outcome(wir, fv, dom=dom, max_steps=20000)
        if o.unsafe is not None:
            if o.unsafe.kind in ("data-division-by-zero", "int-store-out-of-range"):
                continue
            raise Violation({"kind": "wrapper-unsafe:" + o.unsafe.kind, "instr": name}, f"{name}: interpreter monitor on a valid call: {o.unsafe}\n{info['src']}")
        if not o.limit:
            good.append((fv, o))
    if not good:
        raise Skip("no-runnable-input")
    try:
        c_text, h_text = emit_c([w])
    except CompileRejected as e:
        raise Violation({"kind": "compile-rejected", "instr": name}, f"the caller of {name} does not compile: {e}\n{info['src']}")
    driver, metas = make_driver(wir, h_text, [fv for fv, _ in good], lambda fv: {})
    r = build_and_run(c_text, h_text, driver)
    where = f"instruction {name}\n{info['src']}"
    if not r.compile_ok:
        raise Violation({"kind": "gcc-rejects", "instr": name}, f"{where}\n{r.compile_err[:1200]}")
    if r.timeout:
        raise Skip("timeout")
    sk = sanitizer_kind(r.stderr)
    if sk or r.exit != 0:
        raise Violation({"kind": "sanitizer:" + str(sk), "instr": name}, f"{where}\n{r.stderr[:1200]}")
    outs = parse_output(r.stdout)
    nontriv = False
    for (fv, o), got, meta in zip(good, outs, metas):
        mism = []
        for nm, (n, cty) in meta.items():
            exp, g = o.bufs[nm], got["bufs"][nm]
            tol = {"float": 2e-6, "double": 1e-14}.get(cty)
            start, length = (int(eval(x, {}, dict(fv["ctrl"]))) for x in info["place"].get(nm, ("0", str(n))))
            bound = list(fv["ctrl"].values())[0] if info["prefix"] and fv["ctrl"] else None
            for i, (a, b) in enumerate(zip(exp, g)):
                if a is POISON:
                    continue
                a = float(a)
                ok = a == b or (a != a and b != b) or (tol is not None and abs(a - b) <= tol * max(1.0, abs(a), abs(b)))
                if not ok:
                    lane = i - start
                    if lane < 0 or lane >= length:
                        cls = "outside-window"
                    elif bound is not None and lane >= bound:
                        cls = "masked-off-lane"
                    else:
                        cls = "active-lane"
                    mism.append((cls, nm, i, lane, a, b))
        if mism:
            # a deviation in an active lane or outside the operand's window outranks one in a
            # masked-off lane (the recorded known findings are all of the latter kind)
            prio = {"outside-window": 0, "active-lane": 1, "masked-off-lane": 2}
            cls, nm, i, lane, a, b = min(mism, key=lambda m: (prio[m[0]], m[1], m[2]))
            raise Violation(
                {"kind": "c-differs-from-body", "instr": name, "where": cls},
                f"{where}\ncontrol {fv['ctrl']}, operands {json.dumps(fv['data'])[:600]}\n{nm}[{i}] (lane {lane}, {cls}): Exo body gives {a!r}, intrinsics give {b!r}; {len(mism)} element(s) differ\n--- emitted call:\n" + "\n".join(l for l in c_text.splitlines() if "_mm" in l or "result" in l)[:800],
            )
        distinct = any(len(set(v)) >= 2 for v in fv["data"].values())
        partial = True
        if info["prefix"]:
            b = list(fv["ctrl"].values())[0]
            partial = 1 <= b
        nontriv = nontriv or (distinct and partial)
    return {
        "nontrivial": nontriv,
        "digest": {"i": name, "v": [(fv["ctrl"], fv["data"]) for fv, _ in good]},
        "classes": ["instr:" + name, f"vectors={len(good)}", f"placement={case.get('variant', 0) % 3}"],
        "sample": {"instruction": name, "wrapper": info["src"], "control": good[0][0]["ctrl"], "operands": {k: v[:8] for k, v in good[0][0]["data"].items()}},
    }


def floats():
    mant = st.integers(-4000, 4000).map(lambda m: m / 64.0)
    scale = st.sampled_from([1.0, 1.0, 0.001, 1000.0, 0.5])
    return st.one_of(st.tuples(mant, scale).map(lambda t: t[0] * t[1]), st.sampled_from([0.0, -0.0, 1.0, -1.0, 3.0]))


def case_strategy(idx_strategy, variant_strategy=st.integers(0, 2)):
    vec = st.lists(floats(), min_size=24, max_size=24)
    return st.fixed_dictionaries({"instr": idx_strategy, "variant": variant_strategy, "pick": st.integers(0, 40), "vecs": st.lists(vec, min_size=6, max_size=6)})


def run(ctx):
    global CTX
    CTX = ctx
    n = len(instr_names())
    # every instruction is visited: shard s handles instructions s, s+nshards, ...
    mine = [i for i in range(n) if i % ctx.nshards == ctx.shard]
    per = 2 if ctx.tier == "quick" else 40  # (the first example Hypothesis generates is the all-zero one)
    for i in mine:
        for v in range(3):  # every instruction in every window placement
            run_cases(ctx, case_strategy(st.just(i), st.just(v)), guarded(ctx, check_case), per, salt=f"i{i}v{v}")
