"""Known-finding exclusions applied at generation/resolution time, so that campaigns keep
searching behind a confirmed (recorded, not yet fixed) defect.  Each predicate is narrow
and named after the entry in known_findings.json; what it excludes is counted."""
from __future__ import annotations

import json
import os

_ROOT = os.path.dirname(os.path.dirname(os.path.abspath(__file__)))
_known = None


def known():
    global _known
    if _known is None:
        p = os.path.join(_ROOT, "known_findings.json")
        _known = json.load(open(p))["findings"] if os.path.exists(p) else []
    return _known


def _alloc_extent_depends_on_iterator(proc):
    """some Alloc's extent mentions an enclosing loop iterator"""
    from exo.core.LoopIR import LoopIR

    def mentions(e, syms):
        if isinstance(e, LoopIR.Read):
            return e.name in syms or any(mentions(i, syms) for i in e.idx)
        if isinstance(e, LoopIR.BinOp):
            return mentions(e.lhs, syms) or mentions(e.rhs, syms)
        if isinstance(e, LoopIR.USub):
            return mentions(e.arg, syms)
        return False

    def walk(stmts, iters):
        for s in stmts:
            if isinstance(s, LoopIR.Alloc) and s.type.is_tensor_or_window():
                if any(mentions(h, iters) for h in s.type.shape()):
                    return True
            elif isinstance(s, LoopIR.For):
                if walk(s.body, iters | {s.iter}):
                    return True
            elif isinstance(s, LoopIR.If):
                if walk(s.body, iters) or walk(s.orelse, iters):
                    return True
        return False

    return walk(proc.INTERNAL_proc().body, frozenset())


WHEN = {"alloc-extent-depends-on-iterator": _alloc_extent_depends_on_iterator}


def excluded_step(prop, step, proc):
    """-> finding id if this step belongs to a class excluded by a 'known' finding.
    exclude = {"props": [...], "op": name | {"re": pattern}, "when": <named predicate on the live proc>}"""
    import re

    if os.environ.get("VERIF_NO_EXCLUDE"):
        return None  # replay mode: the recorded case must reproduce the finding itself
    for f in known():
        if f.get("status") != "known":
            continue
        ex = f.get("exclude")
        if not ex or prop not in ex.get("props", [f["property"]]):
            continue
        op = ex.get("op")
        hit = re.search(op["re"], step[0]) is not None if isinstance(op, dict) else op == step[0]
        if not hit:
            continue
        when = ex.get("when")
        if when and not WHEN[when](proc):
            continue
        return f["id"]
    return None
