RULE = (
    "Hypothesis draws a caller/callee tree from G (calls with dense, window, scalar, size/index/bool arguments, window "
    "statements, allocations) and an annotation assignment: 1-5 steps of set_precision (7 precisions), set_memory (DRAM, "
    "DRAM_STATIC, DRAM_STACK, MDRAM, AVX2, AVX512, GEMM_SCRATCH) and set_window applied through the public API to arguments and "
    "allocations of the caller AND, independently, of callees (re-linked with call_eqv), so mismatches across calls arise. "
    "Two-sided oracle: (1) whenever compile_procs_to_strings returns text, gcc -std=c11 -fsyntax-only -Wall with "
    "-Werror=incompatible-pointer-types, discarded-qualifiers, implicit-function-declaration, int-conversion must accept the .c "
    "and the header on its own (included twice); (2) an independent consistency predicate computed by an own walk over the "
    "LoopIR: two different precisions (R buffers count as f32, R literals as wildcards) under one arithmetic/extern node; "
    "precision mismatch, non-subclass memory, or window-for-dense at a call; direct read/write/reduce of a buffer in a memory "
    "whose can_read()/write/reduce refuses. If it holds compile must raise; returning C is 'silently coercing' = violation. "
    "Assignment between precisions is documented to cast and is not in the predicate. Non-trivial: >=1 annotation differing from "
    "the default on a buffer that participates in a call or a mixed expression. Distinct = digest(program, annotation steps)."
)
ASSUMPTIONS = ["gcc 12 -fsyntax-only as the reference C front end", "the consistency predicate encodes exactly the four clauses of the property statement"]
BOUNDS = {"annotation_steps": "1..5", "call_depth": 2}
