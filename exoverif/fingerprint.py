"""Independent deep fingerprint of a LoopIR tree (own traversal; no __eq__/str of Exo)."""
from __future__ import annotations

import hashlib

from exo.core.prelude import Sym, SrcInfo


def _walk(x, out, seen_procs, depth=0):
    if x is None or isinstance(x, (bool, int, float, str)):
        out.append(repr(x))
    elif isinstance(x, Sym):
        out.append(f"S{x._nm}#{x._id}")
    elif isinstance(x, SrcInfo):
        pass
    elif isinstance(x, (list, tuple)):
        out.append(f"[{len(x)}")
        for e in x:
            _walk(e, out, seen_procs, depth + 1)
        out.append("]")
    elif isinstance(x, type):
        out.append(f"M{x.__name__}")
    elif hasattr(type(x), "__attrs_attrs__"):
        out.append(type(x).__name__)
        if type(x).__name__ == "proc":
            if id(x) in seen_procs:
                out.append("<rec>")
                return
            seen_procs = seen_procs | {id(x)}
        for a in type(x).__attrs_attrs__:
            if a.name == "srcinfo":
                continue
            out.append(a.name)
            _walk(getattr(x, a.name), out, seen_procs, depth + 1)
    elif hasattr(x, "name") and callable(x.name):
        out.append(f"N{type(x).__name__}:{x.name()}")
    else:
        out.append(f"?{type(x).__name__}")


def fingerprint(ir) -> str:
    out = []
    _walk(ir, out, frozenset())
    return hashlib.sha256("\x00".join(out).encode()).hexdigest()[:20]


def node_ids(ir):
    """ids of every ADT node object (stmts, exprs, types excluded) reachable from ir body,
    not descending into callees"""
    from exo.core.LoopIR import LoopIR

    ids = {}

    def we(e):
        ids[id(e)] = e
        if isinstance(e, LoopIR.BinOp):
            we(e.lhs)
            we(e.rhs)
        elif isinstance(e, LoopIR.USub):
            we(e.arg)
        elif isinstance(e, (LoopIR.Read,)):
            for i in e.idx:
                we(i)
        elif isinstance(e, LoopIR.Extern):
            for a in e.args:
                we(a)
        elif isinstance(e, LoopIR.WindowExpr):
            for w in e.idx:
                if isinstance(w, LoopIR.Point):
                    we(w.pt)
                else:
                    we(w.lo)
                    we(w.hi)

    def ws(s):
        ids[id(s)] = s
        if isinstance(s, (LoopIR.Assign, LoopIR.Reduce)):
            for i in s.idx:
                we(i)
            we(s.rhs)
        elif isinstance(s, LoopIR.WriteConfig):
            we(s.rhs)
        elif isinstance(s, LoopIR.If):
            we(s.cond)
            for b in s.body + s.orelse:
                ws(b)
        elif isinstance(s, LoopIR.For):
            we(s.lo)
            we(s.hi)
            for b in s.body:
                ws(b)
        elif isinstance(s, LoopIR.Call):
            for a in s.args:
                we(a)
        elif isinstance(s, LoopIR.WindowStmt):
            we(s.rhs)

    if isinstance(ir, LoopIR.proc):
        for s in ir.body:
            ws(s)
    elif isinstance(ir, LoopIR.stmt):
        ws(ir)
    else:
        we(ir)
    return ids
