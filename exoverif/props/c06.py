"""C06 - forwarded cursors denote the same code or are invalid."""
from __future__ import annotations

import json

from hypothesis import strategies as st

from exo.core.LoopIR import LoopIR
from exo.core.internal_cursors import InvalidCursorError, Node, Gap, Block
from exo.API_cursors import InvalidCursor, lift_cursor
import exo.API_cursors as PC

from ..common import Violation, Skip, run_cases, guarded, rejection_types
from ..gen.templates import programs_or_templates
from ..gen.programs import programs, build, render_program
from .. import sched
from ..fingerprint import node_ids
from .c01 import safe_str

PROP = "C06"
CTX = None


class PRec:
    def __init__(self, p, parent, via):
        self.p, self.parent, self.via = p, parent, via
        self.ir = p.INTERNAL_proc()
        self.stmts, _ = sched.collect(self.ir)
        self.ids = node_ids(self.ir)  # id -> node for whole tree
        self.pos = {}  # id(stmt) -> path
        for s in self.stmts:
            self.pos.setdefault(id(s.node), []).append(s.path)
        self.binders = {}
        for s in self.stmts:
            if s.kind == "For":
                self.binders.setdefault(s.node.iter, []).append(s)
            elif s.kind in ("Alloc", "WindowStmt"):
                self.binders.setdefault(s.node.name, []).append(s)


def fwd_call(q, cur):
    """-> ('invalid'|'noimpl'|'ok'|'error', cursor or exception)"""
    try:
        r = q.forward(cur)
    except InvalidCursorError:
        return "invalid", None
    except NotImplementedError:
        return "noimpl", None
    except (KeyboardInterrupt, SystemExit, MemoryError):
        raise
    except BaseException as e:  # noqa
        return "error", e
    if isinstance(r, InvalidCursor):
        return "invalid", None
    return "ok", r


class WrongRoot(Exception):
    pass


def check_root(cur, ir):
    """every internal cursor reachable from a forwarded cursor must live in the target tree"""
    impl = cur._impl
    roots = [impl._root]
    if isinstance(impl, Gap):
        roots.append(impl._anchor._root)
    if isinstance(impl, Block):
        roots.append(impl._anchor._root)
    for r in roots:
        if r is not ir:
            raise WrongRoot(f"{type(impl).__name__} cursor (or its anchor) is rooted in procedure {getattr(r, 'name', '?')!r}, not in the target tree")


def resolve(cur):
    """public cursor -> internal impl with validated path; raises on dangling"""
    impl = cur._impl
    if isinstance(impl, Node):
        return impl._node
    if isinstance(impl, Gap):
        a = impl._anchor._node
        return a
    if isinstance(impl, Block):
        return [c._node for c in impl]
    return None


def principal(n):
    if isinstance(n, (LoopIR.Assign, LoopIR.Reduce, LoopIR.Alloc, LoopIR.WindowStmt)):
        return n.name
    if isinstance(n, LoopIR.For):
        return n.iter
    if isinstance(n, LoopIR.Call):
        return n.f
    if isinstance(n, LoopIR.WriteConfig):
        return ("config-field", id(n.config), n.field)
    return None


def same_principal(a, b):
    return a is not None and (a is b or (isinstance(a, tuple) and a == b))


def _shares_header(f, n):
    def hdr(x):
        if isinstance(x, LoopIR.If):
            return [x.cond]
        if isinstance(x, LoopIR.For):
            return [x.lo, x.hi]
        if isinstance(x, (LoopIR.Assign, LoopIR.Reduce)):
            return list(x.idx) + [x.rhs]
        if isinstance(x, (LoopIR.WindowStmt, LoopIR.WriteConfig)):
            return [x.rhs]
        if isinstance(x, LoopIR.Call):
            return list(x.args)
        return []

    a, b = hdr(f), hdr(n)
    return bool(a) and any(x is y for x in a for y in b)


def blame(desc, ck, what):
    return {"op": desc["op"], "cursor": ck, "kind": what}


def check_stmt_forward(src: PRec, dst: PRec, site, desc, hist, stats):
    cur = sched.cursor_at(src.p, site.path)
    st, r = fwd_call(dst.p, cur)
    tag = f"{desc['op']}|stmt"
    if st == "noimpl":
        stats["noimpl"] += 1
        return None
    N = site.node
    where = f"forwarding statement cursor {sched.path_str(site.path)} ({site.kind}: {str(N).splitlines()[0][:60]!r}) of ancestor through {json.dumps(hist, default=str)}"
    if st == "error":
        # any exception is read as "reports that the target no longer exists" (tallied by type);
        # only a positively wrong or dangling cursor is a violation
        stats["stmt-forward-raises-" + type(r).__name__] += 1
        return "invalid"
    occ = dst.pos.get(id(N), [])
    if st == "invalid":
        stats["invalidated"] += 1
        if occ:
            stats["carried-over-but-invalid"] += 1
        return "invalid"
    if r.proc() is not dst.p:
        raise Violation(blame(desc, "stmt", "wrong-root"), f"{where}: result is not a cursor into the target procedure")
    try:
        check_root(r, dst.ir)
        F = resolve(r)
    except (KeyboardInterrupt, SystemExit, MemoryError):
        raise
    except BaseException as e:  # noqa
        raise Violation(blame(desc, "stmt", "dangling"), f"{where}: forwarded cursor does not resolve: {type(e).__name__}: {e}\ntarget proc:\n{safe_str(dst.p)}")
    if isinstance(F, list):
        # a statement forwarded to a block: every carried-over identity must be inside
        Fs = F
    else:
        Fs = [F]
    if not all(isinstance(f, LoopIR.stmt) for f in Fs):
        raise Violation(blame(desc, "stmt", "kind-changed"), f"{where}: forwarded to a non-statement {type(Fs[0]).__name__}")
    if occ and len(src.pos.get(id(N), [])) > 1:
        # the same statement OBJECT occurs several times in the source tree (e.g. main and
        # tail loop of divide_loop share untouched statements): identity is ambiguous
        stats["stmt-identity-ambiguous"] += 1
        occ = []
    if occ and len(Fs) == 1 and Fs[0] is not N and type(Fs[0]) is type(N) and _shares_header(Fs[0], N):
        # the rewrite rebuilt the statement (same kind, same header expression objects: condition,
        # bounds, right-hand side) and kept the old object in another role, e.g. lift_scope
        # re-uses the lifted 'if' inside the branch it came from: the rebuilt one is the statement
        stats["stmt-rebuilt-and-old-object-reused"] += 1
        occ = []
    if occ:
        if len(occ) == 1 and not any(f is N for f in Fs):
            raise Violation(
                blame(desc, "stmt", "different-statement"),
                f"{where}: the statement object is carried over to {sched.path_str(occ[0])} in the target, but the forwarded cursor denotes {str(Fs[0]).splitlines()[0][:80]!r} at {getattr(r._impl, '_path', '?')}\nsource proc:\n{safe_str(src.p)}\ntarget proc:\n{safe_str(dst.p)}",
            )
        moved = occ[0] != site.path
        return "moved" if moved else "same"
    # rebuilt node: evidence through carried-over descendants
    D = node_ids(N)
    carried = {i for i in D if i in dst.ids and i != id(N)}
    if carried:
        DF = set()
        for f in Fs:
            DF |= set(node_ids(f))
        composite = desc["op"].startswith(("std.", "halide."))
        if not composite and not (DF & carried) and not any(same_principal(principal(f), principal(N)) for f in Fs):
            # (sub-expressions may legitimately move into a new statement, e.g. bind_expr /
            # stage_mem; then the statement that still has the same principal Sym -- written
            # buffer, iterator, allocated name, callee, config field -- is the same statement.
            # Compositions such as cse both bind the sub-expressions and stage the written
            # buffer, so neither kind of evidence survives: not judged by this rule.)
            raise Violation(
                blame(desc, "stmt", "different-statement(rebuilt)"),
                f"{where}: {len(carried)} sub-nodes of the original statement are carried over into the target, none of them lies inside the forwarded statement {str(Fs[0]).splitlines()[0][:80]!r}\nsource proc:\n{safe_str(src.p)}\ntarget proc:\n{safe_str(dst.p)}",
            )
    # binder evidence
    sym = N.iter if isinstance(N, LoopIR.For) else (N.name if isinstance(N, (LoopIR.Alloc, LoopIR.WindowStmt)) else None)
    # (only when the Sym had a unique binder in the source as well: fission / lift_scope
    #  legitimately leave two sibling loops binding one iterator Sym)
    if sym is not None and len(src.binders.get(sym, [])) == 1 and len(dst.binders.get(sym, [])) == 1 and len(Fs) == 1:
        b = dst.binders[sym][0].node
        f = Fs[0]
        fsym = f.iter if isinstance(f, LoopIR.For) else (f.name if isinstance(f, (LoopIR.Alloc, LoopIR.WindowStmt)) else None)
        if type(f) is type(N) and fsym is not sym and f is not b:
            # the unique statement still binding this Sym is elsewhere
            contains = id(b) in node_ids(f)
            if not contains:
                raise Violation(
                    blame(desc, "stmt", "different-binder"),
                    f"{where}: {sym!r} is still bound exactly once in the target (by {str(b).splitlines()[0][:60]!r}) but the forwarded cursor denotes {str(f).splitlines()[0][:60]!r}\nsource proc:\n{safe_str(src.p)}\ntarget proc:\n{safe_str(dst.p)}",
                )
    return "rebuilt"


def check_block_forward(src, dst, site, n, desc, hist, stats):
    cur = sched.cursor_at(src.p, site.path).expand(0, n - 1)
    if len(cur) != n:
        return None
    nodes = [c._impl._node for c in cur]
    st, r = fwd_call(dst.p, cur)
    if st in ("noimpl", "invalid"):
        stats["block-" + st] += 1
        return st
    where = f"forwarding block {sched.path_str(site.path)}+{n} through {json.dumps(hist, default=str)}"
    if st == "error":
        stats["block-forward-raises-" + type(r).__name__] += 1
        return "invalid"
    try:
        check_root(r, dst.ir)
        F = resolve(r)
    except (KeyboardInterrupt, SystemExit, MemoryError):
        raise
    except BaseException as e:  # noqa
        raise Violation(blame(desc, "block", "dangling"), f"{where}: forwarded block does not resolve: {type(e).__name__}: {e}\ntarget:\n{safe_str(dst.p)}")
    if not isinstance(F, list):
        F = [F]
    occ = [dst.pos.get(id(x), []) for x in nodes]
    if all(len(o) == 1 for o in occ):
        paths = [o[0] for o in occ]
        contiguous = all(p[:-1] == paths[0][:-1] and p[-1][0] == paths[0][-1][0] and p[-1][1] == paths[0][-1][1] + i for i, p in enumerate(paths))
        if contiguous:
            if len(F) != len(nodes) or any(f is not x for f, x in zip(F, nodes)):
                raise Violation(
                    blame(desc, "block", "different-block"),
                    f"{where}: all {n} statements are carried over contiguously at {sched.path_str(paths[0])}, but the forwarded block denotes {[str(f).splitlines()[0][:40] for f in F]}\nsource proc:\n{safe_str(src.p)}\ntarget proc:\n{safe_str(dst.p)}",
                )
    return "ok"


def check_gap_forward(src, dst, site, side, desc, hist, stats):
    c = sched.cursor_at(src.p, site.path)
    g = c.before() if side == 0 else c.after()
    st, r = fwd_call(dst.p, g)
    if st in ("noimpl", "invalid"):
        stats["gap-" + st] += 1
        return st
    where = f"forwarding gap {'before' if side == 0 else 'after'} {sched.path_str(site.path)} through {json.dumps(hist, default=str)}"
    if st == "error":
        stats["gap-forward-raises-" + type(r).__name__] += 1
        return "invalid"
    if not isinstance(r, PC.GapCursor):
        raise Violation(blame(desc, "gap", "kind-changed"), f"{where}: result is {type(r).__name__}")
    try:
        check_root(r, dst.ir)
        a = r.anchor()
        check_root(a, dst.ir)
        an = a._impl._node
        if not isinstance(an, LoopIR.stmt):
            raise ValueError("anchor is not a statement")
    except (KeyboardInterrupt, SystemExit, MemoryError):
        raise
    except BaseException as e:  # noqa
        raise Violation(blame(desc, "gap", "dangling"), f"{where}: forwarded gap does not resolve: {type(e).__name__}: {e}\ntarget:\n{safe_str(dst.p)}")
    # neighbours carried over and still adjacent => the gap must be between them
    N = site.node
    if side == 0 and site.pos > 0:
        other_path = site.path[:-1] + [(site.path[-1][0], site.pos - 1)]
    elif side == 1 and site.pos + 1 < site.nsib:
        other_path = site.path[:-1] + [(site.path[-1][0], site.pos + 1)]
    else:
        return "ok"
    O = sched.cursor_at(src.p, other_path)._impl._node
    oN, oO = dst.pos.get(id(N), []), dst.pos.get(id(O), [])
    if len(oN) == 1 and len(oO) == 1:
        pN, pO = oN[0], oO[0]
        first, second = (pO, pN) if side == 0 else (pN, pO)
        if first[:-1] == second[:-1] and first[-1][0] == second[-1][0] and first[-1][1] + 1 == second[-1][1]:
            gi = r._impl
            ap = list(gi._anchor._path)
            ok = (ap == list(first) and gi._type.name == "After") or (ap == list(second) and gi._type.name == "Before")
            if not ok:
                raise Violation(
                    blame(desc, "gap", "different-gap"),
                    f"{where}: both neighbours are carried over and still adjacent ({sched.path_str(first)} | {sched.path_str(second)}), but the forwarded gap is {gi._type.name} {ap}\nsource proc:\n{safe_str(src.p)}\ntarget proc:\n{safe_str(dst.p)}",
                )
    return "ok"


def same_cursor(a, b):
    ia, ib = a._impl, b._impl
    if type(ia) is not type(ib):
        return False
    if isinstance(ia, Node):
        return list(ia._path) == list(ib._path)
    if isinstance(ia, Gap):
        return list(ia._anchor._path) == list(ib._anchor._path) and ia._type == ib._type
    if isinstance(ia, Block):
        return list(ia._anchor._path) == list(ib._anchor._path) and ia._attr == ib._attr and ia._range == ib._range
    return False


def check_case(case):
    from collections import Counter

    try:
        env, p0 = build(case["prog"])
    except rejection_types():
        raise Skip("frontend-reject")
    recs = [PRec(p0, None, None)]
    sctx = sched.SchedCtx(env)
    stats = Counter()
    nontriv = set()
    for step in case["steps"]:
        name, k1, k2, k3, tgt = step
        # mostly extend the newest procedure (long chains), sometimes branch from an older one
        ti = len(recs) - 1 if tgt < 10 else tgt % len(recs)
        src = recs[ti]
        q, outcome, desc = sched.apply_step(src.p, [name, k1, k2, k3], sctx)
        if outcome == "noop":
            continue
        if CTX is not None:
            CTX.op(name, outcome)
        if outcome != "accepted":
            continue
        desc.pop("err", None)
        dst = PRec(q, src, desc)
        if len(recs) < 10:
            recs.append(dst)
        # chain of ancestors
        chain = []
        a = src
        while a is not None:
            chain.append(a)
            a = a.parent
        for depth, anc in enumerate(chain):
            hist = []
            x = dst
            while x is not anc and x is not None:
                hist.append(x.via["op"] if x.via else "?")
                x = x.parent
            hist = list(reversed(hist))
            for site in anc.stmts[:40]:
                r = check_stmt_forward(anc, dst, site, desc, hist, stats)
                if r is not None:
                    stats["stmt-" + r] += 1
                    if r in ("moved", "invalid", "rebuilt"):
                        nontriv.add(f"{name}|stmt|{r}|{site.kind}|d{min(depth, 2)}")
                for side in (0, 1):
                    g = check_gap_forward(anc, dst, site, side, desc, hist, stats)
                    if g == "invalid":
                        nontriv.add(f"{name}|gap|invalid|d{min(depth, 2)}")
                for n in (2, 3):
                    if site.pos + n <= site.nsib:
                        b = check_block_forward(anc, dst, site, n, desc, hist, stats)
                        if b == "invalid":
                            nontriv.add(f"{name}|block{n}|invalid")
                # composition: forward via the intermediate procedure explicitly
                if depth >= 1:
                    cur = sched.cursor_at(anc.p, site.path)
                    s1, r1 = fwd_call(dst.p, cur)
                    s2, mid = fwd_call(src.p, cur)
                    if s2 == "ok":
                        s3, r3 = fwd_call(dst.p, mid)
                    else:
                        s3, r3 = s2, None
                    if s1 == "ok" and s3 == "ok" and not same_cursor(r1, r3):
                        raise Violation(
                            blame(desc, "stmt", "composition-differs"),
                            f"forwarding {sched.path_str(site.path)} through the chain {hist} in one call gives {r1._impl}, step by step gives {r3._impl}",
                        )
                    if (s1 == "ok") != (s3 == "ok") and "noimpl" not in (s1, s3):
                        stats["composition-validity-differs"] += 1
        # implicit forwarding: a stale cursor handed to an op == explicitly forwarded first
        anc = chain[-1] if len(chain) > 1 else src
        loops = [s for s in anc.stmts if s.kind == "For"][:3]
        for site in loops:
            cur = sched.cursor_at(anc.p, site.path)

            def attempt(c):
                import exo.stdlib.scheduling as S

                try:
                    return "T:" + safe_str(S.divide_loop(q, c, 2, ["fo", "fi"], tail="guard"))
                except (KeyboardInterrupt, SystemExit, MemoryError):
                    raise
                except BaseException as e:  # noqa
                    return "E:" + type(e).__name__

            a1 = attempt(cur)
            s_, f_ = fwd_call(q, cur)
            if s_ == "ok":
                a2 = attempt(f_)
                if a1 != a2:
                    raise Violation(
                        blame(desc, "stmt", "implicit-forwarding-differs"),
                        f"divide_loop(q, stale_cursor) and divide_loop(q, q.forward(stale_cursor)) differ: {a1[:200]} vs {a2[:200]}",
                    )
                stats["implicit-checked"] += 1
            elif s_ == "invalid":
                if not a1.startswith("E:"):
                    raise Violation(
                        blame(desc, "stmt", "implicit-forwarding-accepts-invalid"),
                        f"explicit forwarding of the loop cursor {sched.path_str(site.path)} is invalid, yet divide_loop(q, stale_cursor) succeeded",
                    )
    return {
        "nontrivial": bool(nontriv),
        "digest": sorted(nontriv),
        "classes": [f"procs={len(recs)}"] + [k for k, v in stats.items() if v],
        "sample": {"program": render_program(case["prog"]), "chain": [r.via for r in recs[1:]], "forward_stats": dict(stats)},
        "_nontriv": sorted(nontriv),
    }


def case_strategy(max_steps, names):
    step = st.tuples(st.sampled_from(names), st.integers(0, 40), st.integers(0, 23), st.integers(0, 47), st.integers(0, 13)).map(list)
    return st.fixed_dictionaries({"prog": programs_or_templates(25, max_stmts=10), "steps": st.lists(step, min_size=1, max_size=max_steps)})


def run(ctx):
    global CTX
    CTX = ctx
    names = sched.op_names(unsafe=True)

    def chk(case):
        info = check_case(case)
        # distinctness for C06 is per (op, cursor kind, position class)
        for d in info.pop("_nontriv", []):
            ctx.nontrivial.add(d)
        info["nontrivial"] = False
        if len(ctx.samples) < 3 and info["sample"]["chain"]:
            ctx.samples.append(info["sample"])
        return info

    from ..common import run_systematic
    from ..gen.templates import distinct_step_cases

    quick = ctx.tier == "quick"

    def strip(cases):
        for c in cases:
            yield {"prog": c["prog"], "steps": c["steps"]}

    run_systematic(ctx, strip(distinct_step_cases(ctx.shard, ctx.nshards, names, None, params=(0, 1, 2, 3) if quick else (0, 1, 2, 3, 5, 7), extra=[0])), guarded(ctx, chk), keep_one_in=8 if quick else 1, label="template-single-steps", presharded=True)
    run_cases(ctx, case_strategy(6 if ctx.tier == "quick" else 12, names), guarded(ctx, chk), ctx.budget(800, 6400))
