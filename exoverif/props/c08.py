"""C08 - generated C is free of undefined behaviour and leaks."""
from __future__ import annotations

import json
import re

from ..common import Violation, Skip, run_cases, guarded, rejection_types
from ..gen.programs import build, render_program
from .. import sched
from ..charness import parse_output, sanitizer_kind
from .c01 import safe_str
from . import c02
from ..findings import excluded_step

PROP = "C08"
CTX = None


def check_case(case):
    try:
        env, p0 = build(case["prog"])
    except rejection_types():
        raise Skip("frontend-reject")
    sctx = sched.SchedCtx(env)
    p = p0
    acc = []
    for step in case["steps"]:
        if excluded_step(PROP, step, p):
            continue
        q, outcome, desc = sched.apply_step(p, step, sctx)
        if outcome == "accepted":
            desc.pop("err", None)
            acc.append(desc)
            p = q
    ir, c_text, h_text, driver, metas, good, r = c02.compile_and_run(p, env, case)
    where = f"program:\n{safe_str(p)}\naccepted steps: {json.dumps(acc, default=str)}\ninputs: {[fv['ctrl'] for fv, _ in good]}"
    if not r.compile_ok:
        m = re.search(r"error: ([^\n]*(discards|discarded|incompatible pointer|const)[^\n]*)", r.compile_err)
        if m:
            raise Violation({"kind": "const-or-pointer-type-error"}, f"{where}\ngcc: {m.group(1)}\n--- C:\n{c_text[-2500:]}")
        raise Skip("gcc-rejects(C15)")
    if r.timeout:
        raise Skip("run-timeout")
    sk = sanitizer_kind(r.stderr)
    if sk:
        raise Violation({"kind": sk}, f"{where}\n{r.stderr[:1500]}\n--- C:\n{c_text[-2500:]}")
    if r.exit != 0:
        raise Violation({"kind": f"exit-{r.exit}"}, f"{where}\nexit status {r.exit}\nstderr: {r.stderr[:800]}\n--- C:\n{c_text[-2500:]}")
    outs = parse_output(r.stdout)
    for (fv, o), got in zip(good, outs):
        if got["live"]:
            raise Violation({"kind": "leak", "live": str(got["live"])}, f"{where}\ninput {json.dumps(fv)}: {got['live']} heap block(s) still allocated when the procedure returned\n--- C:\n{c_text[-2500:]}")
        if got["badfree"]:
            raise Violation({"kind": "bad-free"}, f"{where}\ninput {json.dumps(fv)}: free() of a pointer that is not a live allocation ({got['badfree']}x)\n--- C:\n{c_text[-2500:]}")
    feats = []
    if "malloc" in c_text:
        feats.append("heap-alloc")
    if re.search(r"\[[^\]]*( - | % |exo_floor)", c_text):
        feats.append("maybe-negative-index")
    if re.search(r"const \w+\*", c_text) and "static void" in c_text:
        feats.append("const-arg+callee")
    if "static " in c_text and "[" in c_text:
        pass
    return {
        "nontrivial": bool(feats),
        "digest": {"p": render_program(case["prog"]), "s": acc},
        "classes": ["prec:" + case["prog"]["prec"], f"steps={len(acc)}"] + feats,
        "sample": {"program": safe_str(p), "steps": acc, "features": feats},
    }


def run(ctx):
    global CTX
    CTX = ctx
    c02.CTX = ctx
    names = sched.op_names(groups=("core", "storage", "loop"), weights={"make_instr": 0, "lift_alloc": 6, "sink_alloc": 6, "stage_mem": 6, "reuse_buffer": 4, "fission": 5, "specialize": 4, "inline_window": 4, "unroll_loop": 4})
    from ..common import run_systematic
    from ..gen.templates import distinct_step_cases

    val = {"fill": 1, "layout": 2, "cfg": [3, 5, 1, 2, 4], "pick": 7}
    quick = ctx.tier == "quick"
    sys_ops = [n for n in set(names) if sched.OPS[n]["group"] in ("storage", "loop") or n in ("inline", "inline_window", "bind_expr", "extract_subproc")]
    run_systematic(ctx, distinct_step_cases(ctx.shard, ctx.nshards, sys_ops, val, params=(0, 1, 2, 3) if quick else (0, 1, 2, 3, 5, 7)), guarded(ctx, check_case), keep_one_in=80 if quick else 3, label="template-single-steps", presharded=True)
    run_cases(ctx, c02.case_strategy(names), guarded(ctx, check_case), ctx.budget(256, 2048))
