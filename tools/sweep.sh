#!/bin/sh
# tools/sweep.sh <seed> [tier] [props...]: run checks, print exit code and wall time per property
seed="$1"; tier="${2:-quick}"; shift; shift 2>/dev/null
props="$@"; [ -z "$props" ] && props="C01 C02 C03 C04 C05 C06 C07 C08 C09 C10 C11 C12 C13 C14 C15 C16 C17 C18 C19"
cd /verif
for p in $props; do
  t0=$(date +%s)
  VERIF_SEED=$seed ./check $p --tier $tier > /tmp/sweep_${seed}_$p.out 2>&1; rc=$?
  t1=$(date +%s)
  echo "$p seed=$seed rc=$rc wall=$((t1-t0))s $(grep -E "^$p tier" /tmp/sweep_${seed}_$p.out | sed 's/.*evaluations/evaluations/' | cut -c1-120)"
done
