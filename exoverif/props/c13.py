"""C13 - range analysis bounds contain every attainable value."""
from __future__ import annotations

import itertools
import json

from hypothesis import strategies as st

from ..common import Violation, Skip, run_cases, guarded, rejection_types

PROP = "C13"
W = 8
FREE_RANGE = range(-5, 6)

_syms = {}


def sym(name):
    from exo.core.prelude import Sym

    if name not in _syms:
        _syms[name] = Sym(name)
    return _syms[name]


def to_ir(t):
    from exo.core.LoopIR import LoopIR, T
    from exo.core.prelude import null_srcinfo

    si = null_srcinfo()
    k = t[0]
    if k == "v":
        return LoopIR.Read(sym(t[1]), [], T.index, si)
    if k == "c":
        return LoopIR.Const(int(t[1]), T.int, si)
    if k == "neg":
        return LoopIR.USub(to_ir(t[1]), T.index, si)
    return LoopIR.BinOp(k, to_ir(t[1]), to_ir(t[2]), T.index, si)


def ev(t, env):
    k = t[0]
    if k == "v":
        return env[t[1]]
    if k == "c":
        return t[1]
    if k == "neg":
        return -ev(t[1], env)
    a, b = ev(t[1], env), ev(t[2], env)
    if k == "+":
        return a + b
    if k == "-":
        return a - b
    if k == "*":
        return a * b
    if k == "/":
        return a // b
    if k == "%":
        return a % b
    raise ValueError(k)


def well_formed(t):
    k = t[0]
    if k in ("v", "c"):
        return True
    if k == "neg":
        return well_formed(t[1])
    if k == "*":
        return (t[1][0] == "c" or t[2][0] == "c") and well_formed(t[1]) and well_formed(t[2])
    if k in ("/", "%"):
        return t[2][0] == "c" and t[2][1] > 0 and well_formed(t[1])
    if k in ("+", "-"):
        return well_formed(t[1]) and well_formed(t[2])
    return False


def tvars(t, acc=None):
    acc = set() if acc is None else acc
    if t[0] == "v":
        acc.add(t[1])
    elif t[0] != "c":
        for s in t[1:]:
            tvars(s, acc)
    return acc


def show(t):
    k = t[0]
    if k == "v":
        return t[1]
    if k == "c":
        return str(t[1])
    if k == "neg":
        return f"-({show(t[1])})"
    return f"({show(t[1])} {k} {show(t[2])})"


def interesting(t):
    k = t[0]
    if k in ("v", "c"):
        return k == "v" and t[1].startswith("s")
    if k == "neg":
        return True
    if k in ("/", "%"):
        return True
    if k == "*" and ((t[1][0] == "c" and t[1][1] < 0) or (t[2][0] == "c" and t[2][1] < 0)):
        return True
    return any(interesting(s) for s in t[1:] if isinstance(s, list))


def domains(envj, names):
    """valuation domains for the variables: bounded sides as given, unknown sides widened"""
    doms = {}
    for n in names:
        if n in envj:
            lo, hi = envj[n]
            if lo is None and hi is None:
                doms[n] = range(-W, W + 1)
            elif lo is None:
                doms[n] = range(hi - W, hi + 1)
            elif hi is None:
                doms[n] = range(lo, lo + W + 1)
            else:
                doms[n] = range(lo, hi + 1)
        else:
            doms[n] = FREE_RANGE
    return doms


def irange_eval(r, env_syms):
    """value of the base expression of an IndexRange under a Sym->int env"""
    from ..interp import Interp

    return Interp()._ctrl(r.base, env_syms)


def check_expr_case(case):
    from exo.rewrite.range_analysis import index_range_analysis, constant_bound, IndexRange, IndexRangeEnvironment

    t = case["e"]
    if not well_formed(t):
        raise Skip("ill-formed")
    envj = {k: tuple(v) for k, v in case["env"].items()}
    names = sorted(tvars(t) | (tvars(case["e2"]) if case.get("e2") else set()))
    env = {sym(n): envj[n] for n in names if n in envj}
    for n, (lo, hi) in envj.items():
        if lo is not None and hi is not None and lo > hi:
            raise Skip("empty-range")
    ir = to_ir(t)
    doms = domains(envj, names)
    vals = [dict(zip(names, c)) for c in itertools.product(*[doms[n] for n in names])]
    if len(vals) > 6000:
        raise Skip("too-many-valuations")
    try:
        r = index_range_analysis(ir, env)
    except (KeyboardInterrupt, SystemExit, MemoryError):
        raise
    except BaseException as e:  # noqa
        raise Violation({"api": "index_range_analysis", "kind": "raises:" + type(e).__name__}, f"index_range_analysis({show(t)}, {envj}) raised {type(e).__name__}: {e}")
    mode = case.get("mode", 0)
    classes = ["expr"]
    if isinstance(r, int):
        for v in vals:
            if ev(t, v) != r:
                raise Violation({"api": "index_range_analysis", "kind": "constant-wrong"}, f"index_range_analysis({show(t)}, {envj}) = {r} but valuation {v} gives {ev(t, v)}")
        classes.append("const-result")
    else:
        if not isinstance(r, IndexRange):
            raise Violation({"api": "index_range_analysis", "kind": "bad-result-type"}, f"index_range_analysis({show(t)}, {envj}) returned {type(r).__name__}: {r}")
        for v in vals:
            val = ev(t, v)
            b = irange_eval(r, {sym(n): x for n, x in v.items()})
            d = val - b
            if (r.lo is not None and d < r.lo) or (r.hi is not None and d > r.hi):
                raise Violation(
                    {"api": "index_range_analysis", "kind": "value-outside-range", "top": t[0]},
                    f"index_range_analysis({show(t)}, env={envj}) = {r}; valuation {v} gives value {val}, base {b}: {val} not in [{b}+{r.lo}, {b}+{r.hi}]",
                )
        classes.append("bounded" if r.lo is not None and r.hi is not None else "half/unbounded")
        cb = constant_bound(ir, env)
        if cb != (None, None):
            lo, hi = cb
            for v in vals:
                val = ev(t, v)
                if (lo is not None and val < lo) or (hi is not None and val > hi):
                    raise Violation({"api": "constant_bound", "kind": "value-outside-range"}, f"constant_bound({show(t)}, {envj}) = {cb}; valuation {v} gives {val}")
    # check_expr_bound(s) via IndexRangeEnvironment
    if case.get("e2") is not None and well_formed(case["e2"]):
        t2 = case["e2"]
        ire = IndexRangeEnvironment.__new__(IndexRangeEnvironment)
        from collections import ChainMap

        ire.proc = None
        ire.env = ChainMap(dict(env))
        op = ["<", "<=", "=="][mode % 3]
        try:
            res = ire.check_expr_bound(ir, op, to_ir(t2))
        except (KeyboardInterrupt, SystemExit, MemoryError):
            raise
        except BaseException as e:  # noqa
            raise Violation({"api": "check_expr_bound", "kind": "raises:" + type(e).__name__}, f"check_expr_bound({show(t)} {op} {show(t2)}, {envj}) raised {e}")
        classes.append(f"check_expr_bound={res}")
        if res:
            for v in vals:
                a, b = ev(t, v), ev(t2, v)
                ok = a < b if op == "<" else (a <= b if op == "<=" else a == b)
                if not ok:
                    raise Violation(
                        {"api": "check_expr_bound", "kind": "claimed-true-but-false", "op": op},
                        f"check_expr_bound({show(t)} {op} {show(t2)}) with env {envj} returned True, but valuation {v} gives {a} vs {b}",
                    )
        # the three-way form used by simplify:  0 <= e < c
        c = 1 + mode % 5
        res2 = ire.check_expr_bounds(0, "<=", ir, "<", c)
        if res2:
            for v in vals:
                a = ev(t, v)
                if not (0 <= a < c):
                    raise Violation({"api": "check_expr_bounds", "kind": "claimed-true-but-false"}, f"check_expr_bounds(0 <= {show(t)} < {c}) env {envj} returned True; valuation {v} gives {a}")
        # join of the two ranges must contain both
        r2 = index_range_analysis(to_ir(t2), env)
        if isinstance(r, IndexRange) and isinstance(r2, IndexRange):
            j = r | r2
            for v in vals[:: max(1, len(vals) // 400)]:
                se = {sym(n): x for n, x in v.items()}
                bj = irange_eval(j, se)
                for tt in (t, t2):
                    d = ev(tt, v) - bj
                    if (j.lo is not None and d < j.lo) or (j.hi is not None and d > j.hi):
                        raise Violation({"api": "IndexRange.__or__", "kind": "join-loses-value"}, f"({r}) | ({r2}) = {j} does not contain {show(tt)} = {ev(tt, v)} at {v} (env {envj})")
    # loop-iterator ranges as added by add_loop_iter:  for it in seq(t, e2)
    if case.get("loop"):
        lo_t, hi_t, body_t = t, case["e2"] if case.get("e2") else ["c", 4], case["loop"]
        if well_formed(hi_t) and well_formed(body_t):
            from collections import ChainMap

            ire = IndexRangeEnvironment.__new__(IndexRangeEnvironment)
            ire.proc = None
            ire.env = ChainMap(dict(env))
            it = sym("it")
            ire.add_loop_iter(it, to_ir(lo_t), to_ir(hi_t))
            rb = index_range_analysis(to_ir(body_t), ire.env)
            names2 = sorted(set(names) | (tvars(body_t) - {"it"}))
            doms2 = domains(envj, names2)
            n = 0
            for combo in itertools.product(*[doms2[x] for x in names2]):
                v = dict(zip(names2, combo))
                lo_v, hi_v = ev(lo_t, v), ev(hi_t, v)
                for i in range(lo_v, min(hi_v, lo_v + 25)):
                    n += 1
                    if n > 20000:
                        break
                    v2 = dict(v, it=i)
                    val = ev(body_t, v2)
                    if isinstance(rb, int):
                        if val != rb:
                            raise Violation({"api": "add_loop_iter", "kind": "constant-wrong"}, f"loop it in seq({show(lo_t)},{show(hi_t)}): range of {show(body_t)} = {rb}, but it={i}, {v} gives {val}")
                        continue
                    b = irange_eval(rb, {sym(k): x for k, x in v2.items()})
                    d = val - b
                    if (rb.lo is not None and d < rb.lo) or (rb.hi is not None and d > rb.hi):
                        raise Violation(
                            {"api": "add_loop_iter", "kind": "value-outside-range"},
                            f"for it in seq({show(lo_t)}, {show(hi_t)}) under env {envj}: range of {show(body_t)} reported {rb}; it={i}, {v} gives {val} (base {b})",
                        )
            classes.append("loop-iter")
    nonsingle = any(lo is None or hi is None or hi > lo for (lo, hi) in envj.values())
    return {
        "nontrivial": interesting(t) and nonsingle,
        "digest": case,
        "classes": classes + (["free-var"] if any(n.startswith("s") for n in names) else []) + ["top:" + t[0]],
        "sample": {"expr": show(t), "env": envj, "result": str(r)},
    }


# ---- (b) user-level infer_range / bounds_inference on generated nests


def check_nest_case(case):
    from ..exoutil import exec_source
    from exo.stdlib.range_analysis import infer_range, bounds_inference
    from exo.core.LoopIR import LoopIR
    from ..interp import Interp

    loops = case["loops"]  # [[name, lo_str, hi_str], ...] outer to inner
    e = case["expr"]  # string over loop names / n / m
    lines = ["@proc", "def foo(n: size, m: size, x: f32[1]):"]
    ind = 1
    for nm, lo, hi in loops:
        lines.append("    " * ind + f"for {nm} in seq({lo}, {hi}):")
        ind += 1
    lines.append("    " * ind + f"if {e} >= 0:")
    lines.append("    " * (ind + 1) + "x[0] = 0.0")
    src = "\n".join(lines) + "\n"
    try:
        p = exec_source(src)["foo"]
    except rejection_types():
        raise Skip("frontend-reject")
    # cursors
    c = p.body()[0]
    fors = [c]
    for _ in loops[1:]:
        c = c.body()[0]
        fors.append(c)
    ifc = c.body()[0]
    ecur = ifc.cond().lhs()
    scope_k = case["scope"] % (len(fors) + 1)
    scope = fors[scope_k] if scope_k < len(fors) else None
    if scope is None:
        raise Skip("scope=proc not supported by infer_range")
    try:
        r = infer_range(ecur, scope)
    except rejection_types() + (AssertionError,) as ex:
        raise Skip("infer_range-refuses")
    # brute force: execute the nest
    ir = p.INTERNAL_proc()
    it = Interp()
    enode = ecur._impl._node
    nsym, msym = ir.args[0].name, ir.args[1].name

    def walk(stmt, env, out):
        if isinstance(stmt, LoopIR.For):
            lo, hi = it._ctrl(stmt.lo, env), it._ctrl(stmt.hi, env)
            for i in range(lo, hi):
                e2 = dict(env)
                e2[stmt.iter] = i
                walk(stmt.body[0], e2, out)
        else:
            out.append((it._ctrl(enode, env), it._ctrl(r.base, env), dict(env)))

    n_checked = 0
    for n in range(1, 6):
        for m in range(1, 6):
            out = []
            try:
                walk(ir.body[0], {nsym: n, msym: m}, out)
            except KeyError:
                raise Skip("ill-scoped-loop-bound")
            for val, b, env in out:
                n_checked += 1
                d = val - b
                if (r.lo is not None and d < r.lo) or (r.hi is not None and d > r.hi):
                    raise Violation(
                        {"api": "infer_range", "kind": "value-outside-range", "shadow": str(len({l[0] for l in loops}) < len(loops))},
                        f"infer_range({e}, scope=loop #{scope_k}) = {r} on\n{src}but n={n}, m={m}, iterators { {str(k): v for k, v in env.items()} } give {val} (base {b})",
                    )
    shadow = len({l[0] for l in loops}) < len(loops)
    return {
        "nontrivial": n_checked > 1 and (r.lo is not None or r.hi is not None),
        "digest": case,
        "classes": ["nest", "shadowed-names" if shadow else "distinct-names", f"depth={len(loops)}", f"scope={scope_k}"],
        "sample": {"source": src, "scope": scope_k, "result": str(r)},
    }


def check_case(case):
    if case.get("kind") == "nest":
        return check_nest_case(case)
    return check_expr_case(case)


# ---- strategies


def tree_strategy(names, depth):
    atom = st.one_of(st.sampled_from(names).map(lambda n: ["v", n]), st.integers(-4, 6).map(lambda c: ["c", c]))
    pos = st.integers(1, 5).map(lambda c: ["c", c])
    anyc = st.integers(-3, 4).map(lambda c: ["c", c])

    def ext(children):
        return st.one_of(
            st.tuples(st.just("+"), children, children).map(list),
            st.tuples(st.just("-"), children, children).map(list),
            st.tuples(st.just("*"), anyc, children).map(list),
            st.tuples(st.just("*"), children, anyc).map(list),
            st.tuples(st.just("/"), children, pos).map(list),
            st.tuples(st.just("%"), children, pos).map(list),
            st.tuples(st.just("neg"), children).map(list),
        )

    return st.recursive(atom, ext, max_leaves=depth)


def rng_strategy():
    b = st.integers(-6, 8)
    return st.one_of(
        st.tuples(b, st.integers(0, 6)).map(lambda t: [t[0], t[0] + t[1]]),
        st.tuples(b, st.integers(0, 6)).map(lambda t: [t[0], t[0] + t[1]]),
        b.map(lambda x: [x, None]),
        b.map(lambda x: [None, x]),
        st.just([None, None]),
    )


def expr_case_strategy(leaves):
    names = ["v0", "v1", "s0"]
    return st.fixed_dictionaries(
        {
            "kind": st.just("expr"),
            "e": tree_strategy(names, leaves),
            "e2": st.one_of(st.none(), tree_strategy(names, 3)),
            "loop": st.one_of(st.none(), tree_strategy(names + ["it", "it"], 4)),
            "env": st.fixed_dictionaries({"v0": rng_strategy(), "v1": rng_strategy()}),
            "mode": st.integers(0, 14),
        }
    )


def nest_case_strategy():
    names = st.sampled_from(["i", "j", "i", "k"])
    lo = st.sampled_from(["0", "0", "1", "2", "n", "i", "0"])
    hi = st.sampled_from(["4", "n", "m", "n + 2", "8", "i + 1", "3", "100"])
    loop = st.tuples(names, lo, hi).map(list)
    expr = st.sampled_from(
        ["i", "j", "i + j", "2 * i + j", "i - j", "i / 2", "i % 3", "j + 1", "k", "i + k", "n - i", "(i + 3) / 2 - j", "4 * i - 3", "j % 4 + i", "-i + 3", "i + n"]
    )
    return st.fixed_dictionaries({"kind": st.just("nest"), "loops": st.lists(loop, min_size=1, max_size=3), "expr": expr, "scope": st.integers(0, 3)})


def exhaustive(ctx):
    atoms = [["v", "v0"], ["v", "v1"], ["v", "s0"], ["c", -2], ["c", 1], ["c", 3]]

    def unary(a):
        return [["neg", a], ["*", ["c", -2], a], ["*", a, ["c", 2]], ["*", ["c", 3], a], ["/", a, ["c", 2]], ["/", a, ["c", 3]], ["%", a, ["c", 2]], ["%", a, ["c", 3]]]

    d1 = list(atoms)
    for a in atoms:
        d1 += unary(a)
    for a in atoms:
        for b in atoms:
            d1 += [["+", a, b], ["-", a, b]]
    exprs = list(d1)
    for a in d1:
        exprs += unary(a)
    if ctx.tier == "thorough":
        for a in d1:
            for b in d1:
                exprs += [["+", a, b], ["-", a, b]]
    envs = [
        {"v0": [0, 3], "v1": [0, 7]},
        {"v0": [-3, 2], "v1": [1, 4]},
        {"v0": [2, None], "v1": [None, 3]},
        {"v0": [-5, -1], "v1": [None, None]},
        {"v0": [4, 4], "v1": [0, 1]},
        {"v0": [0, 15], "v1": [-2, 9]},
    ]
    chk = guarded(ctx, check_case)
    n = 0
    for idx, (e, env) in enumerate(itertools.product(exprs, envs)):
        if idx % ctx.nshards != ctx.shard:
            continue
        case = {"kind": "expr", "e": e, "e2": None, "loop": None, "env": env, "mode": idx % 15}
        try:
            info = chk(case)
        except Violation as v:
            ctx.evaluations += 1
            ctx.fail(v, case)
            continue
        except Skip as s:
            ctx.evaluations += 1
            ctx.skipped[str(s)] += 1
            continue
        info["classes"].append("exhaustive")
        ctx.record(info, case)
        n += 1
    ctx.extra["exhaustive_cases"] = n


def run(ctx):
    exhaustive(ctx)
    run_cases(ctx, expr_case_strategy(6), guarded(ctx, check_case), ctx.budget(5000, 40000), salt="e")
    run_cases(ctx, nest_case_strategy(), guarded(ctx, check_case), ctx.budget(800, 6400), salt="n")
