"""Known-finding exclusions applied at generation/resolution time, so that campaigns keep
searching behind a confirmed (recorded, not yet fixed) defect.  Each predicate is narrow
and named after the entry in known_findings.json; what it excludes is counted."""
from __future__ import annotations

import json
import os

_ROOT = os.path.dirname(os.path.dirname(os.path.abspath(__file__)))
_known = None


def known():
    global _known
    if _known is None:
        p = os.path.join(_ROOT, "known_findings.json")
        _known = json.load(open(p))["findings"] if os.path.exists(p) else []
    return _known


def excluded_step(prop, step, proc):
    """-> finding id if this step belongs to a class excluded by a 'known' finding"""
    if os.environ.get("VERIF_NO_EXCLUDE"):
        return None  # replay mode: the recorded case must reproduce the finding itself
    for f in known():
        if f.get("status") != "known":
            continue
        ex = f.get("exclude")
        if not ex or prop not in ex.get("props", [f["property"]]):
            continue
        if ex.get("op") == step[0]:
            return f["id"]
    return None
