RULE = (
    "Hypothesis draws batches of 8 sessions = (program source from G incl. callees/configs/memories, textual schedule of 0-4 "
    "steps over the whole op catalogue incl. the ops with set-valued internals (unroll_buffer, lift_alloc, fission, stage_mem, "
    "extract_subproc, remove_loop...), compile request for the result, optionally together with its callees in either order). "
    "Every batch is executed in FRESH interpreters that differ in PYTHONHASHSEED (0, 1 and a drawn value), in a pre-roll that "
    "burns k Syms and defines/compiles k unrelated procedures first, and in the order in which the sessions of the batch are "
    "processed. Oracle: byte-identical str(p_k) after every step, identical accept/reject outcome of every step, and identical "
    ".c and .h text across all variants of a session. Non-trivial: session with >=1 accepted step and a successful compile. "
    "Distinct = digest(program, accepted steps)."
)
ASSUMPTIONS = ["hash seeds and process histories are sampled (3-4 variants per session), not covered exhaustively"]
BOUNDS = {"variants_per_session": 4, "sessions_per_batch": 8}
