#!/venv/bin/python
"""tools/add_finding.py <replay.json> <id> <status> <what> [matcher-json] [exclude-json]
Append an entry to known_findings.json from a replay file written by a check."""
import json, sys, os

ROOT = os.path.dirname(os.path.dirname(os.path.abspath(__file__)))
rp, fid, status, what = sys.argv[1:5]
matcher = json.loads(sys.argv[5]) if len(sys.argv) > 5 and sys.argv[5] else None
exclude = json.loads(sys.argv[6]) if len(sys.argv) > 6 and sys.argv[6] else None
rec = json.load(open(rp))
kf = json.load(open(os.path.join(ROOT, "known_findings.json")))
kf["findings"] = [f for f in kf["findings"] if f["id"] != fid]
e = {"id": fid, "property": rec["property"], "status": status, "what": what, "matcher": matcher if matcher is not None else rec["sig"], "case": rec["case"]}
if exclude:
    e["exclude"] = exclude
kf["findings"].append(e)
json.dump(kf, open(os.path.join(ROOT, "known_findings.json"), "w"), indent=1)
print("added", fid, "sig was", rec["sig"])
