RULE = (
    "Hypothesis draws a program from G and a derivation history of <=6 (quick) / <=12 (thorough) steps (whole op catalogue incl. "
    "unsafe ops), each applied to the newest or to any earlier procedure. After every accepted step EVERY statement cursor, "
    "every contiguous block (length<=3) and every gap of EVERY ancestor is forwarded to the new procedure with Procedure.forward. "
    "Oracle (identity evidence independent of the forwarding code; rewrites are functional updates so untouched nodes are the same "
    "Python objects): the result is invalid/raises, or is a cursor rooted in the new procedure whose path resolves, of the same "
    "cursor kind, and (a) if the original node object occurs in the new tree the result is exactly that occurrence; (b) otherwise, "
    "if descendants of the original node were carried over, the forwarded node contains at least one of them; loop/alloc/window "
    "binders keep their Sym when it is still bound exactly once. Blocks: carried-over contiguous statements must come back as "
    "exactly that block. Gaps: result resolves, and lies between carried-over neighbours that are still adjacent. Composition: "
    "forwarding through the chain equals forwarding step by step. Implicit forwarding: op(p, stale_cursor) equals "
    "op(p, p.forward(stale_cursor)) (same printed result or same exception type). Non-trivial: a forwarded cursor whose path "
    "changed or that was invalidated. Distinct = (op, cursor kind, position class relative to the edit)."
)
ASSUMPTIONS = [
    "object identity of IR nodes shared between input and output trees is the ground truth for 'same statement'",
    "ops that offer no forwarding (NotImplementedError) are tallied, not violations",
    "a carried-over statement reported invalid is tallied only (the property allows 'no longer exists')",
]
BOUNDS = {"history": {"quick": 6, "thorough": 12}, "block_len": 3}
