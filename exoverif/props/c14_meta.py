RULE = (
    "Every @instr exported by exo.platforms.x86 (60: AVX2 f32/f64/ui16, AVX-512 f32, prefetch; the host CPU has avx2, fma and "
    "avx512f) is wrapped by a GENERATED Exo caller that stages DRAM data into the register memories with the library's own "
    "load instructions, calls the instruction once and stores every register back; size/mask/bound arguments take every value "
    "admitted by the instruction's assertions; DRAM operands are windows at drawn offsets inside larger arrays. Hypothesis draws "
    "the operand contents (float32/float64-representable values over several magnitudes, +-0, negative values, exact integers "
    "for ui16; divisors non-zero). Oracle: the wrapper compiled by the tree under test and gcc -mavx2 -mfma -mavx512f (intrinsics "
    "really executed, ASan/UBSan on) versus the reference interpreter (machine domain) running the same wrapper with the "
    "instruction executed FROM ITS EXO BODY; all backing arrays and by-reference scalars compared: exact for moves, selects, "
    "masks and integer ops, relative tolerance 2e-6 (f32) / 1e-14 (f64) for arithmetic (fused multiply-add, reassociated "
    "reductions). Non-trivial: operands with >=2 distinct lanes and, for masked/prefix forms, a bound that is neither empty nor "
    "full. Distinct = digest(instruction, control values, operands)."
)
ASSUMPTIONS = [
    "the staging loads/stores are themselves instructions under test (a staging bug shows first on the plain load/store wrappers)",
    "NaN/inf/denormal operands are not generated (libm/FTZ behaviour is outside the stated property)",
    "Neon/RVV/SVE/Gemmini cannot execute on this host",
]
BOUNDS = {"vectors_per_case": 6}
