RULE = (
    "Hypothesis draws a program from G (index expressions are quasi-affine trees with negative intermediates, nested / and %, "
    "guards such as i == c / n > c / i % 2 == 0, assertions, shadowed and sibling-reused iterator names, non-zero lower bounds, "
    "zero-trip and triangular loops), 0-2 preparatory loop rewrites (divide/cut/shift/unroll/fission/specialize...) and one "
    "normalising op (simplify, stdlib cleanup, halide _simplify_with_preds, divide_loop(perfect=True)). For ALL admissible "
    "control valuations in the box (sizes 1..6, index args -4..5; <=40 per case) the reference interpreter records, for the "
    "input and the output of the normalising op, the sequence of stores (buffer, element, and the list of elements read to "
    "compute the stored value), evaluated allocation extents, call control-arguments and config writes. Oracle: the store "
    "sequences agree element by element (same buffer, same element), the reads feeding a store are a sub-multiset of the "
    "original's (constant folding may drop reads, never add or move them), extents/call arguments/config writes agree, and no "
    "safety monitor trips. This is stricter than final-state equality: a changed index is seen even when memory coincides; a "
    "removed loop/branch must have executed zero stores. Non-trivial: the normaliser changed the printed procedure and the "
    "program has a control expression with / or %, a subtraction, or a guard. Distinct = digest(program, steps)."
)
ASSUMPTIONS = [
    "value-only mismatches with identical access locations are data constant-folding matters (C01) and are tallied, not reported here",
    "floor semantics for / and % on control values",
]
BOUNDS = {"sizes": "1..6", "index_args": "-4..5", "valuations_per_case": 40}
