"""C15 - compile output is valid C; inconsistent annotations are rejected."""
from __future__ import annotations

import json

from hypothesis import strategies as st

from exo.core.LoopIR import LoopIR, T

from ..common import Violation, Skip, run_cases, guarded, rejection_types
from ..gen.programs import programs, build, render_program
from .. import sched
from ..charness import syntax_check
from .c01 import safe_str

PROP = "C15"
CTX = None
PRECS = ["f32", "f64", "i8", "i32", "ui8", "ui16", "f16"]


def mems():
    from exo import DRAM
    from exo.libs.memories import DRAM_STATIC, DRAM_STACK, MDRAM, AVX2, AVX512, GEMM_SCRATCH

    return [DRAM, DRAM_STATIC, DRAM_STACK, MDRAM, AVX2, AVX512, GEMM_SCRATCH]


# ---- independent consistency predicate


def inconsistency(ir, depth=0):
    """-> None or (kind, detail) following the four clauses of the property"""
    from exo.core.memory import MemGenError, DRAM

    typ, mem = {}, {}

    def bt(t):
        b = t.basetype()
        return T.f32 if isinstance(b, T.Num) else b

    for a in ir.args:
        if a.type.is_numeric():
            typ[a.name] = a.type
            mem[a.name] = a.mem or DRAM

    def etype(e):
        """precision of a numeric expression; None = wildcard (R literal)"""
        if isinstance(e, LoopIR.Read):
            if e.name in typ:
                return bt(typ[e.name])
            return None
        if isinstance(e, LoopIR.Const):
            return None
        if isinstance(e, LoopIR.ReadConfig):
            t = e.config.lookup_type(e.field)
            return t if t.is_real_scalar() else None
        if isinstance(e, LoopIR.USub):
            return etype(e.arg)
        if isinstance(e, LoopIR.BinOp):
            if not e.type.is_numeric():
                return None
            a, b = etype(e.lhs), etype(e.rhs)
            if a is not None and b is not None and a != b:
                raise _Bad("mixed-precision-expr", f"{e}: {a} vs {b}")
            return a if a is not None else b
        if isinstance(e, LoopIR.Extern):
            ts = [etype(a) for a in e.args]
            ts = [t for t in ts if t is not None]
            if any(t != ts[0] for t in ts):
                raise _Bad("mixed-precision-extern", f"{e}: {[str(t) for t in ts]}")
            return ts[0] if ts else None
        return None

    def reads(e, out):
        if isinstance(e, LoopIR.Read):
            if e.name in mem:
                out.append(e.name)
            for i in e.idx:
                reads(i, out)
        elif isinstance(e, LoopIR.BinOp):
            reads(e.lhs, out)
            reads(e.rhs, out)
        elif isinstance(e, LoopIR.USub):
            reads(e.arg, out)
        elif isinstance(e, LoopIR.Extern):
            for a in e.args:
                reads(a, out)

    def check_reads(e):
        out = []
        reads(e, out)
        for n in out:
            if not mem[n].can_read():
                raise _Bad("read-of-unreadable-memory", f"{n} @ {mem[n].name()}")

    def can_write(m, kind):
        class _S:
            srcinfo = "x"
            name = "x"

        try:
            getattr(m, kind)(_S(), "l", "r")
            return True
        except MemGenError:
            return False
        except Exception:
            return True

    def stmts(block):
        for s in block:
            if isinstance(s, (LoopIR.Assign, LoopIR.Reduce)):
                check_reads(s.rhs)
                if s.rhs.type.is_numeric():
                    etype(s.rhs)
                if s.name in mem and not can_write(mem[s.name], "write" if isinstance(s, LoopIR.Assign) else "reduce"):
                    raise _Bad("write-to-unwritable-memory", f"{s.name} @ {mem[s.name].name()}")
            elif isinstance(s, LoopIR.WriteConfig):
                check_reads(s.rhs)
            elif isinstance(s, LoopIR.If):
                stmts(s.body)
                stmts(s.orelse)
            elif isinstance(s, LoopIR.For):
                stmts(s.body)
            elif isinstance(s, LoopIR.Alloc):
                typ[s.name] = s.type
                mem[s.name] = s.mem or DRAM
            elif isinstance(s, LoopIR.WindowStmt):
                # the alias has the precision of the buffer it windows AS DECLARED NOW (the type
                # recorded on the window expression can be stale after set_precision on the
                # underlying buffer; following the declaration is what the annotations mean)
                typ[s.name] = _AliasType(typ.get(s.rhs.name, s.rhs.type))
                mem[s.name] = mem.get(s.rhs.name, DRAM)
            elif isinstance(s, LoopIR.Call):
                for a, fa in zip(s.args, s.f.args):
                    if not fa.type.is_numeric():
                        continue
                    if isinstance(a, (LoopIR.Read, LoopIR.WindowExpr)) and a.name in typ:
                        ap, fp = bt(typ[a.name]), bt(fa.type)
                        if ap != fp:
                            raise _Bad("call-precision-mismatch", f"{s.f.name}({fa.name}: {fp}) given {a.name}: {ap}")
                        am, fm = mem[a.name], fa.mem or DRAM
                        if not issubclass(am, fm):
                            raise _Bad("call-memory-mismatch", f"{s.f.name}({fa.name} @ {fm.name()}) given {a.name} @ {am.name()}")
                        is_win_actual = isinstance(a, LoopIR.WindowExpr) or typ[a.name].is_win()
                        if isinstance(a, LoopIR.Read) and a.idx:
                            is_win_actual = False
                        if isinstance(fa.type, T.Tensor) and not fa.type.is_window and is_win_actual:
                            raise _Bad("window-for-dense", f"{s.f.name}({fa.name}) dense, given window {a}")
                if depth < 3:
                    r = inconsistency(s.f, depth + 1)
                    if r:
                        raise _Bad(r[0], f"in callee {s.f.name}: {r[1]}")

    try:
        stmts(ir.body)
    except _Bad as b:
        return (b.kind, b.detail)
    return None


class _AliasType:
    """type of a window alias: base precision of the aliased declaration, always a window"""

    def __init__(self, base):
        self._base = base

    def basetype(self):
        return self._base.basetype()

    def is_win(self):
        return True


class _Bad(Exception):
    def __init__(self, kind, detail):
        super().__init__(kind)
        self.kind, self.detail = kind, detail


# ---- annotation steps


def apply_annotations(env, p0, prog, steps):
    import exo.stdlib.scheduling as S

    M = mems()
    p = p0
    callees = {c["name"]: env[c["name"]] for c in prog["callees"]}
    log = []
    for kind, tgt, k1, k2 in steps:
        # tgt 0 -> caller, else callee #tgt-1 (if any)
        names = sorted(callees)
        if tgt > 0 and names:
            cname = names[(tgt - 1) % len(names)]
            q = callees[cname]
        else:
            cname, q = None, p
        ir = q.INTERNAL_proc()
        bufs = [str(a.name) for a in ir.args if a.type.is_numeric()]
        st_, _ = sched.collect(ir)
        allocs = [str(s.node.name) for s in st_ if s.kind == "Alloc"]
        try:
            if kind == "prec":
                cand = bufs + allocs
                if not cand:
                    continue
                b = cand[k1 % len(cand)]
                q2 = S.set_precision(q, b, PRECS[k2 % len(PRECS)])
                d = {"op": "set_precision", "on": cname or "caller", "buf": b, "prec": PRECS[k2 % len(PRECS)]}
            elif kind == "mem":
                cand = bufs + allocs
                if not cand:
                    continue
                b = cand[k1 % len(cand)]
                m = M[k2 % len(M)]
                q2 = S.set_memory(q, b, m)
                d = {"op": "set_memory", "on": cname or "caller", "buf": b, "mem": m.name()}
            else:
                targs = [str(a.name) for a in ir.args if isinstance(a.type, T.Tensor)]
                if not targs:
                    continue
                b = targs[k1 % len(targs)]
                q2 = S.set_window(q, b, bool(k2 % 2))
                d = {"op": "set_window", "on": cname or "caller", "buf": b, "win": bool(k2 % 2)}
        except rejection_types() as e:
            continue
        if cname is None:
            p = q2
        else:
            # re-link every call to the old callee in the caller
            callees[cname] = q2
            try:
                for _ in range(8):
                    calls = [c for c in p.find(f"{q.name()}(_)", many=True)]
                    calls = [c for c in calls if c.subproc().INTERNAL_proc() is ir]
                    if not calls:
                        break
                    p = S.call_eqv(p, calls[0], q2)
            except rejection_types() as e:
                pass
        log.append(d)
    return p, log


def check_case(case):
    try:
        env, p0 = build(case["prog"])
    except rejection_types():
        raise Skip("frontend-reject")
    p, log = apply_annotations(env, p0, case["prog"], case["ann"])
    ir = p.INTERNAL_proc()
    bad = inconsistency(ir)
    from exo.API import compile_procs_to_strings
    from exo.core.memory import MemGenError
    from exo.core.configs import ConfigError

    where = f"annotations: {json.dumps(log)}\nprocedure:\n{safe_str(p)}"
    try:
        c_text, h_text = compile_procs_to_strings([p], "gen.h")
        compiled = True
    except (TypeError, MemGenError, ConfigError, NotImplementedError) as e:
        compiled = False
        rej = f"{type(e).__name__}: {str(e)[:200]}"
    except (KeyboardInterrupt, SystemExit, MemoryError):
        raise
    except BaseException as e:  # noqa
        import traceback

        tb = traceback.extract_tb(e.__traceback__)
        w = f"{tb[-1].filename.split('/')[-1]}:{tb[-1].name}" if tb else "?"
        raise Violation({"kind": "compile-internal-error", "exc": f"{type(e).__name__}@{w}"}, f"{where}\ncompile raised {type(e).__name__}: {str(e)[:300]} (not a documented rejection)")
    classes = ["annotated=%d" % min(len(log), 5), "inconsistent:" + bad[0] if bad else "consistent", "compiled" if compiled else "rejected"]
    if compiled and bad:
        raise Violation(
            {"kind": "inconsistent-annotations-compiled", "clause": bad[0]},
            f"{where}\nthe annotations are inconsistent ({bad[0]}: {bad[1]}) but compile returned C instead of raising:\n{c_text[-1800:]}",
        )
    if compiled and ("gemmini.h" in c_text or "gemm_malloc" in c_text or "gemm_acc_malloc" in c_text):
        classes.append("non-host-memory(no gcc)")
    elif compiled:
        ok, err, cmd = syntax_check(c_text, h_text)
        if not ok:
            import re

            m = re.search(r"error: ([^\n]*)", err)
            msg = re.sub(r"‘[^’]*’|'[^']*'", "X", m.group(1))[:60] if m else "?"
            argnames = {str(a.name) for a in ir.args}
            vec_arg = any(d.get("op") == "set_memory" and d.get("mem") in ("AVX2", "AVX512") and d.get("on") == "caller" and d.get("buf") in argnames for d in log)
            raise Violation(
                {"kind": "gcc-rejects-output", "msg": msg, "vector_memory_on_argument": str(vec_arg)},
                f"{where}\n{cmd}\n{err[:1500]}\n--- C:\n{c_text[-2500:]}",
            )
    nondefault = len(log) > 0
    return {
        "nontrivial": nondefault and (bad is not None or "static void" in (c_text if compiled else "") or compiled),
        "digest": {"p": render_program(case["prog"]), "a": log},
        "classes": classes,
        "sample": {"program": safe_str(p), "annotations": log, "verdict": classes[1:], "rejection": None if compiled else rej},
    }


def case_strategy():
    ann = st.tuples(st.sampled_from(["prec", "prec", "mem", "mem", "win"]), st.integers(0, 2), st.integers(0, 9), st.integers(0, 13)).map(list)
    from ..gen.templates import templates

    # a third of the programs are forced to contain calls (annotation mismatches ACROSS a call are
    # half of the property's clauses), some are the hand-written templates (windows of allocations
    # handed to callees, externs at two precisions, ...)
    progs = st.one_of(programs(max_stmts=9, config_pct=10), programs(max_stmts=9, config_pct=10), programs(max_stmts=8, config_pct=10, calls=True, force_call=True), programs(max_stmts=8, config_pct=0, calls=True, force_call=True), templates())
    return st.fixed_dictionaries({"prog": progs, "ann": st.lists(ann, min_size=0, max_size=5)})


def systematic_cases(params):
    """every template x every single annotation (each buffer / allocation of the caller and of each
    callee x every precision / memory / window-ness); only indices that denote distinct targets"""
    from ..gen.templates import TEMPLATES

    for t in TEMPLATES:
        for tk in params:
            prog = t(tk)
            try:
                env, p0 = build(prog)
            except Exception:
                continue
            procs = [p0] + [env[c["name"]] for c in sorted(prog["callees"], key=lambda c: c["name"])][:2]
            for tgt, q in enumerate(procs):
                ir = q.INTERNAL_proc()
                nbuf = len([a for a in ir.args if a.type.is_numeric()]) + len([x for x in sched.collect(ir)[0] if x.kind == "Alloc"])
                ntens = len([a for a in ir.args if isinstance(a.type, T.Tensor)])
                for kind, n1, n2 in (("prec", nbuf, len(PRECS)), ("mem", nbuf, 7), ("win", ntens, 2)):
                    for k1 in range(n1):
                        for k2 in range(n2):
                            yield {"prog": prog, "ann": [[kind, tgt, k1, k2]]}


def run(ctx):
    global CTX
    CTX = ctx
    from ..common import run_systematic

    quick = ctx.tier == "quick"
    run_systematic(ctx, systematic_cases((0, 1, 2, 3)), guarded(ctx, check_case), keep_one_in=3 if quick else 1, label="template-single-annotations")
    run_cases(ctx, case_strategy(), guarded(ctx, check_case), ctx.budget(1000, 8000))
