"""C03 - accepted procedures are memory-safe and call-safe."""
from __future__ import annotations

import copy
import json
import re

from hypothesis import strategies as st

from ..common import Violation, Skip, run_cases, guarded, rejection_types
from ..gen.programs import programs, build, render_program
from ..interp import Unsafe, InterpLimit
from ..inputs import run_proc
from ..eqcheck import ctrl_valuations, initial_config, CFG_TYPES

PROP = "C03"
CTX = None


def sites(prog):
    """mutation sites: (kind, accessor path) over main and callees"""
    out = []

    def walk(stmts, where):
        for i, s in enumerate(stmts):
            k = s[0]
            if k in ("assign", "reduce"):
                for j in range(len(s[2])):
                    out.append(("idx", (stmts, i, 2, j)))
                out.append(("rhs", (stmts, i, 3)))
            elif k == "for":
                out.append(("hi", (stmts, i, 3)))
                out.append(("lo", (stmts, i, 2)))
                out.append(("swap", (stmts, i)))
                walk(s[4], where)
            elif k == "if":
                out.append(("dropguard", (stmts, i)))
                walk(s[2], where)
                walk(s[3], where)
            elif k == "alloc":
                for j in range(len(s[3])):
                    out.append(("shrink", (stmts, i, 3, j)))
            elif k == "window":
                for j, a in enumerate(s[3]):
                    out.append(("win", (stmts, i, 3, j)))
            elif k == "call":
                out.append(("callargs", (stmts, i)))
                out.append(("sizearg", (stmts, i)))
                out.append(("aliaschain", (stmts, i)))

    walk(prog["main"]["body"], "main")
    for c in prog["callees"]:
        walk(c["body"], c["name"])
        out.append(("strengthen", (c,)))
    return out


def perturb(prog, muts):
    prog = copy.deepcopy(prog)
    applied = []
    for mut in muts:
        k1, k2 = mut[0], mut[1]
        ss = sites(prog)
        if not ss:
            break
        if len(mut) > 2:
            # absolute site index (systematic tier)
            ss = [ss[k1 % len(ss)]]
            k1 = 0
        # first the kind of perturbation, then one of its sites: call-related perturbations are as
        # likely as index perturbations although they have far fewer sites
        kinds = sorted({k for k, _ in ss})
        kind = kinds[k1 % len(kinds)]
        of_kind = [x for x in ss if x[0] == kind]
        kind, path = of_kind[(k1 // len(kinds) + k2) % len(of_kind)]
        d = 1 if k2 % 2 == 0 else -1
        if kind == "idx":
            stmts, i, _, j = path
            stmts[i][2][j] = f"({stmts[i][2][j]}) {'+' if d > 0 else '-'} 1"
        elif kind == "rhs":
            stmts, i, _ = path
            # +-1 inside the first bracketed index of the right-hand side
            m = re.search(r"\[([^\[\],]+)", stmts[i][3])
            if not m:
                continue
            stmts[i][3] = stmts[i][3][: m.start(1)] + f"({m.group(1)}) {'+' if d > 0 else '-'} 1" + stmts[i][3][m.end(1) :]
        elif kind == "hi":
            stmts, i, _ = path
            stmts[i][3] = f"({stmts[i][3]}) + 1"
        elif kind == "lo":
            stmts, i, _ = path
            stmts[i][2] = f"({stmts[i][2]}) - 1"
        elif kind == "swap":
            stmts, i = path
            stmts[i][2], stmts[i][3] = stmts[i][3], stmts[i][2]
        elif kind == "dropguard":
            stmts, i = path
            stmts[i : i + 1] = stmts[i][2]
        elif kind == "shrink":
            stmts, i, _, j = path
            stmts[i][3][j] = f"({stmts[i][3][j]}) - 1"
        elif kind == "win":
            stmts, i, _, j = path
            a = stmts[i][3][j]
            if a[0] == "pt":
                a[1] = f"({a[1]}) + 1"
            elif k2 % 3 == 0:
                a[2] = f"({a[2]}) + 1"
            elif k2 % 3 == 1:
                a[1] = f"({a[1]}) - 1"
            else:
                a[1], a[2] = f"({a[1]}) + 1", f"({a[2]}) + 1"
        elif kind == "callargs":
            stmts, i = path
            args = stmts[i][2]
            if len(args) >= 2:
                a, b = k2 % len(args), (k2 // 2 + 1) % len(args)
                if k2 % 4 == 3:
                    args[b] = args[a]  # duplicate
                elif k2 % 4 == 2 and args[a].isdigit():
                    args[a] = "0"
                else:
                    args[a], args[b] = args[b], args[a]
            elif args and args[0].isdigit():
                args[0] = "0"
        elif kind == "sizearg":
            # a size argument becomes a compound expression that may be zero or negative
            stmts, i = path
            cal = next((c for c in prog["callees"] if c["name"] == stmts[i][1]), None)
            szs = [a["name"] for a in prog["main"]["args"] if a["kind"] == "size"]
            if cal is None:
                continue
            pos = [j for j, a in enumerate(cal["args"]) if a["kind"] == "size"]
            if not pos:
                continue
            j = pos[k2 % len(pos)]
            base = szs[k2 % len(szs)] if szs else stmts[i][2][j]
            stmts[i][2][j] = [f"{base} - 1", f"{base} / 2", f"{base} % 4", f"{base} - 2"][k2 % 4]
        elif kind == "aliaschain":
            # pass a window of a window together with another window of the same buffer
            stmts, i = path
            cal = next((c for c in prog["callees"] if c["name"] == stmts[i][1]), None)
            if cal is None:
                continue
            pos = [j for j, a in enumerate(cal["args"]) if a["kind"] in ("window",) and len(a["dims"]) == 1 and a["dims"][0].isdigit()]
            if len(pos) < 2:
                continue
            ja, jb = pos[0], pos[1]
            n = min(int(cal["args"][ja]["dims"][0]), int(cal["args"][jb]["dims"][0]))
            if int(cal["args"][ja]["dims"][0]) != n or int(cal["args"][jb]["dims"][0]) != n:
                continue
            root = stmts[i][2][ja].split("[")[0]
            d = 2 * n + 2
            new = [["alloc", "alx", cal["args"][ja]["prec"], [str(d)], "DRAM"],
                   ["for", "al_i", "0", str(d), [["assign", "alx", ["al_i"], "0.0"]], "seq"],
                   ["window", "al0", "alx", [["iv", "1", str(d - 1)]]],
                   ["window", "al1", "al0", [["iv", str(k2 % 2), str(k2 % 2 + n)]]]]
            stmts[i][2][ja] = "al1"
            stmts[i][2][jb] = [f"alx[{1 + k2 % 2}:{1 + k2 % 2 + n}]", f"al0[0:{n}]", f"alx[1:{1 + n}]"][k2 % 3]
            stmts[i:i] = new
        elif kind == "strengthen":
            (c,) = path
            szs = [a["name"] for a in c["args"] if a["kind"] in ("size", "index")]
            if not szs:
                continue
            c["preds"].append(f"{szs[k2 % len(szs)]} >= {2 + k2 % 3}")
        applied.append(kind)
    return prog, applied


def features(src):
    f = []
    if "if " in src:
        f.append("guard")
    if re.search(r"\w+ = \w+\[", src):
        f.append("window")
    if re.search(r"^\s+sub\d\(", src, re.M):
        f.append("call")
    if " / " in src or " % " in src:
        f.append("divmod")
    if re.search(r"seq\([1-9a-z]", src):
        f.append("nonzero-lo")
    return f


def check_case(case):
    prog, applied = perturb(case["prog"], case["muts"])
    src = render_program(prog)
    try:
        env, p = build(prog)
    except rejection_types() as e:
        return {"nontrivial": False, "digest": src, "classes": ["rejected", f"perturbations={len(applied)}"] + ["mut:" + a for a in applied], "sample": None}
    except RecursionError:
        raise Skip("frontend-recursion")
    except (KeyboardInterrupt, SystemExit, MemoryError):
        raise
    except BaseException as e:  # noqa  an internal error of the front end is still "not accepted"
        return {"nontrivial": False, "digest": src, "classes": ["rejected", "rejected-by-internal-error:" + type(e).__name__] + ["mut:" + a for a in applied], "sample": None}
    ir = p.INTERNAL_proc()
    vals, total = ctrl_valuations(ir, size_max=5, idx_lo=-5, idx_hi=5, limit=60, pick=case["pick"])
    cfg0 = initial_config(case["cfg"], present=prog.get("cfg", False))
    n_run = 0
    for c in vals:
        for layout in (case["layout"], case["layout"] + 1):
            fv = {"ctrl": c, "fill": 1, "layout": layout, "config": cfg0}
            try:
                run_proc(ir, fv, cfg_types=CFG_TYPES, max_steps=20000)
                n_run += 1
            except Unsafe as u:
                if u.kind in ("entry-assertion",):
                    continue
                if u.kind in ("config-uninitialised", "data-division-by-zero", "int-store-out-of-range"):
                    continue
                raise Violation(
                    {"kind": u.kind, "muts": ",".join(sorted(set(applied))) or "none"},
                    f"@proc accepted this procedure, but on input {json.dumps(fv['ctrl'])} (layout {layout}): {u}\nperturbations applied to a safe construction: {applied}\n{src}",
                )
            except (InterpLimit, RecursionError):
                continue
    feats = features(src)
    dep = bool(re.search(r"\[[^\]]*[a-z]", src))
    return {
        "nontrivial": n_run > 0 and dep and bool(feats),
        "digest": src,
        "classes": ["accepted", f"perturbations={len(applied)}"] + ["mut:" + a for a in applied] + ["feat:" + f for f in feats],
        "sample": {"program": src, "perturbations": applied, "inputs_run": n_run, "admissible_inputs": total},
    }


def case_strategy():
    return st.fixed_dictionaries(
        {
            "prog": st.one_of(programs(max_stmts=10, config_pct=10), programs(max_stmts=8, config_pct=10, calls=True, force_call=True)),
            "muts": st.lists(st.tuples(st.integers(0, 60), st.integers(0, 11)).map(list), min_size=0, max_size=2),
            "pick": st.integers(0, 30),
            "layout": st.integers(0, 5),
            "cfg": st.lists(st.integers(0, 20), min_size=5, max_size=5),
        }
    )


def systematic_cases():
    """every perturbation site of every template program x 4 parameter variants"""
    from ..gen.templates import TEMPLATES

    for t in TEMPLATES:
        for tk in (0, 1, 2):
            prog = t(tk)
            n = len(sites(prog))
            for i in range(n):
                for k2 in range(4):
                    yield {"prog": prog, "muts": [[i, k2, "abs"]], "pick": 3, "layout": 1, "cfg": [3, 5, 1, 2, 4]}


def run(ctx):
    global CTX
    CTX = ctx
    from ..common import run_systematic

    run_systematic(ctx, systematic_cases(), guarded(ctx, check_case), keep_one_in=2 if ctx.tier == "quick" else 1, label="template-perturbations")
    run_cases(ctx, case_strategy(), guarded(ctx, check_case), ctx.budget(2000, 16000))
