"""C07 - scheduling is pure: existing procedures never change."""
from __future__ import annotations

import json

from hypothesis import strategies as st

from ..common import Violation, Skip, run_cases, guarded, rejection_types
from ..gen.templates import programs_or_templates
from ..gen.programs import programs, build, render_program
from .. import sched
from ..fingerprint import fingerprint
from .c01 import safe_str

PROP = "C07"
CTX = None


def code_or_exc(p):
    try:
        return "T:" + p.c_code_str()
    except (KeyboardInterrupt, SystemExit, MemoryError):
        raise
    except BaseException as e:  # noqa
        return "E:" + type(e).__name__


class Rec:
    def __init__(self, p, origin):
        self.p = p
        self.ir = p.INTERNAL_proc()
        self.fp = fingerprint(self.ir)
        self.s = safe_str(p)
        self.code = code_or_exc(p)
        self.origin = origin
        # a few cursors with the node objects they denote
        self.cursors = []
        st_, ex = sched.collect(self.ir)
        for site in st_[:6] + ex[:4]:
            try:
                c = sched.cursor_at(p, site.path)
                self.cursors.append((c, site.node, sched.path_str(site.path)))
            except Exception:
                pass


def check_all(recs, when, hist):
    for i, r in enumerate(recs):
        if r.p.INTERNAL_proc() is not r.ir:
            raise Violation({"kind": "proc-object-replaced", "op": when["op"]}, f"after {when}: procedure #{i} now wraps a different LoopIR object\nhistory={hist}")
        fp = fingerprint(r.ir)
        if fp != r.fp:
            raise Violation(
                {"kind": "tree-mutated", "op": when["op"], "outcome": when.get("outcome", "?")},
                f"after {json.dumps(when, default=str)}: the LoopIR tree of procedure #{i} (origin {r.origin}) changed in place.\nbefore:\n{r.s}\nnow:\n{safe_str(r.p)}\nhistory={json.dumps(hist, default=str)}",
            )
        s = safe_str(r.p)
        if s != r.s:
            raise Violation(
                {"kind": "print-changed", "op": when["op"], "outcome": when.get("outcome", "?")},
                f"after {json.dumps(when, default=str)}: str() of procedure #{i} changed although its tree fingerprint did not.\nbefore:\n{r.s}\nnow:\n{s}\nhistory={json.dumps(hist, default=str)}",
            )
        for c, node, pth in r.cursors:
            try:
                n2 = c._impl._node
            except Exception as e:
                raise Violation({"kind": "cursor-broken", "op": when["op"]}, f"after {when}: cursor {pth} into procedure #{i} no longer resolves: {e}\nhistory={hist}")
            if n2 is not node:
                raise Violation({"kind": "cursor-retargeted", "op": when["op"]}, f"after {when}: cursor {pth} into procedure #{i} denotes a different node\nhistory={hist}")


def check_case(case):
    try:
        env, p0 = build(case["prog"])
    except rejection_types():
        raise Skip("frontend-reject")
    from ..common import watch_z3

    z3u = watch_z3()
    z3u0 = z3u[0]
    recs = [Rec(p0, "source")]
    for c in case["prog"]["callees"]:
        recs.append(Rec(env[c["name"]], "callee"))
    sctx = sched.SchedCtx(env)
    hist = []
    n_fail = n_acc = 0
    first_call = None
    touched = False
    for step in case["steps"]:
        name, k1, k2, k3, tgt = step
        tgt_i = tgt % len(recs)
        r = recs[tgt_i]
        if name.startswith("q."):
            when = {"op": name, "target": tgt_i}
            try:
                if name == "q.find":
                    r.p.find(["for _ in _: _", "_ = _", "_ += _", "if _: _", "_: _"][k1 % 5], many=True)
                elif name == "q.str":
                    str(r.p)
                elif name == "q.code":
                    code_or_exc(r.p)
                elif name == "q.is_eq":
                    r.p.is_eq(recs[k1 % len(recs)].p)
                elif name == "q.forward":
                    src = recs[k1 % len(recs)]
                    if src.cursors:
                        r.p.forward(src.cursors[k2 % len(src.cursors)][0])
            except (KeyboardInterrupt, SystemExit, MemoryError):
                raise
            except BaseException:
                pass
            hist.append(when)
            check_all(recs, when, hist)
            continue
        q, outcome, desc = sched.apply_step(r.p, [name, k1, k2, k3], sctx)
        if outcome == "noop":
            continue
        if CTX is not None:
            CTX.op(name, outcome)
        desc = dict(desc, target=tgt_i, outcome=outcome)
        desc.pop("err", None)
        hist.append(desc)
        if outcome == "accepted":
            n_acc += 1
            if first_call is None:
                first_call = (tgt_i, [name, k1, k2, k3], safe_str(q))
            if name in ("mult_dim", "divide_dim", "resize_dim", "expand_dim", "rearrange_dim", "unroll_buffer", "stage_mem", "inline", "extract_subproc", "reuse_buffer", "bind_expr", "divide_loop", "inline_window"):
                touched = True
        else:
            n_fail += 1
        check_all(recs, desc, hist)
        if outcome == "accepted" and len(recs) < 14:
            recs.append(Rec(q, f"#{tgt_i} via {name}"))
            # the act of fingerprinting/compiling the new procedure must not disturb others either
            check_all(recs, dict(desc, op=name + "+inspect"), hist)
    # end of history: compiled text of everything is unchanged; first accepted call replays identically
    for i, r in enumerate(recs):
        c = code_or_exc(r.p)
        if c != r.code:
            raise Violation(
                {"kind": "c-code-changed", "last_op": hist[-1]["op"] if hist else "-"},
                f"c_code_str() of procedure #{i} (origin {r.origin}) differs at the end of the history ({r.code[:40]!r}... vs {c[:40]!r}...)\nhistory={json.dumps(hist, default=str)}\nproc:\n{r.s}",
            )
    if first_call is not None:
        tgt_i, stp, printed = first_call
        sctx2 = sched.SchedCtx(env)
        q2, outcome2, d2 = sched.apply_step(recs[tgt_i].p, stp, sctx2)
        # (ops whose arguments contain a fresh-name counter are not comparable between the runs)
        # (and a call during which z3 answered 'unknown' may legitimately come out differently the
        #  second time: known finding C18-z3-unknown)
        if stp[0] not in ("extract_subproc", "std.auto_stage_mem", "rename", "call_eqv") and z3u[0] == z3u0:
            if outcome2 != "accepted" or safe_str(q2) != printed:
                raise Violation(
                    {"kind": "replay-differs", "op": stp[0]},
                    f"re-running the first accepted call {stp} on its (unchanged) input gives {outcome2} / a different result\nfirst:\n{printed}\nnow:\n{safe_str(q2) if q2 else d2}\nhistory={json.dumps(hist, default=str)}",
                )
    return {
        "nontrivial": len(recs) >= 2 and (n_fail >= 1 or touched),
        "digest": {"p": render_program(case["prog"]), "h": hist},
        "classes": [f"procs={min(len(recs), 8)}", f"failing={min(n_fail, 6)}", f"accepted={min(n_acc, 6)}", "touched-idx-or-callee" if touched else "plain"],
        "sample": {"program": render_program(case["prog"]), "history": hist},
    }


def case_strategy(max_steps, names):
    step = st.tuples(st.sampled_from(names), st.integers(0, 40), st.integers(0, 23), st.integers(0, 47), st.integers(0, 13)).map(list)
    return st.fixed_dictionaries({"prog": programs_or_templates(25, max_stmts=10), "steps": st.lists(step, min_size=2, max_size=max_steps)})


def run(ctx):
    global CTX
    CTX = ctx
    names = sched.op_names(unsafe=True) + ["q.find", "q.str", "q.code", "q.is_eq", "q.forward"] * 3
    from ..common import run_systematic
    from ..gen.templates import distinct_step_cases

    quick = ctx.tier == "quick"
    real_ops = [n for n in names if not n.startswith("q.")]

    def strip(cases):
        for c in cases:
            yield {"prog": c["prog"], "steps": c["steps"]}

    run_systematic(ctx, strip(distinct_step_cases(ctx.shard, ctx.nshards, real_ops, None, params=(0, 1) if quick else (0, 1, 2, 3, 5, 7), extra=[0])), guarded(ctx, check_case), keep_one_in=(lambda c: 1 if sched.OPS.get(c["steps"][0][0], {}).get("group") == "storage" else 9) if quick else 1, label="template-single-steps", presharded=True)
    run_cases(ctx, case_strategy(8 if ctx.tier == "quick" else 16, names), guarded(ctx, check_case), ctx.budget(512, 5120))
