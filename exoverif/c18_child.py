"""child interpreter for C18: reads {"sessions": [...], "preroll": k, "reverse": bool, "junk": k} on stdin,
prints one JSON line per session: {"id", "steps": [[outcome, text]...], "c": text|null, "h": text|null}"""
from __future__ import annotations

import json
import sys


from exoverif.common import watch_z3 as _watch_z3, _Z3_UNKNOWN


def run_session(sid, case):
    """-> (record, final procedure | None)"""
    _watch_z3()
    unk0 = _Z3_UNKNOWN[0]
    rec, p = _run_session(sid, case)
    rec["z3_unknown"] = _Z3_UNKNOWN[0] - unk0
    return rec, p


def _run_session(sid, case):
    from exoverif.gen.programs import build
    from exoverif import sched
    from exoverif.common import rejection_types

    rec = {"id": sid, "steps": [], "c": None, "h": None, "err": None}
    try:
        env, p = build(case["prog"])
    except rejection_types() as e:
        rec["err"] = "frontend:" + type(e).__name__
        return rec, None
    except RecursionError:
        rec["err"] = "frontend:RecursionError"
        return rec, None
    sctx = sched.SchedCtx(env, case["prog"])
    rec["steps"].append(["source", _s(p)])
    for step in case["steps"]:
        q, outcome, desc = sched.apply_step(p, step, sctx)
        if outcome == "accepted":
            p = q
            rec["steps"].append([step[0], _s(p)])
        else:
            rec["steps"].append([step[0] + ":" + outcome, ""])
    try:
        from exo.API import compile_procs_to_strings

        procs = [p]
        if case.get("also_callees"):
            procs = [env[c["name"]] for c in case["prog"]["callees"]][:: -1 if case.get("rev_procs") else 1] + [p]
        c, h = compile_procs_to_strings(procs, "gen.h")
        rec["c"], rec["h"] = c, h
    except Exception as e:
        rec["c"] = "EXC:" + type(e).__name__
    return rec, p


def main():
    req = json.load(sys.stdin)
    from exo.core.prelude import Sym
    from exoverif.exoutil import exec_source
    from exoverif.gen.programs import build
    from exoverif import sched
    from exoverif.common import rejection_types

    for i in range(req.get("preroll", 0)):
        Sym(f"junk{i % 3}")
    if req.get("junk", 0):
        src = "".join(f"@proc\ndef junk{i}(n: size, x: f32[n]):\n    for i in seq(0, n):\n        x[i] = {float(i)}\n\n" for i in range(req["junk"]))
        g = exec_source(src)
        for i in range(req["junk"]):
            try:
                g[f"junk{i}"].c_code_str()
            except Exception:
                pass
    sessions = list(enumerate(req["sessions"]))
    if req.get("reverse"):
        sessions = list(reversed(sessions))
    out = {}
    finals = {}
    bnd = req.get("boundary")
    reps = 3 if bnd else 1
    for pos, (sid, case) in enumerate(sessions):
        recs = []
        n_syms = 0
        for rep in range(reps):
            if bnd and rep > 0:
                # "how many symbols were created earlier": advance the global symbol counter (exactly
                # what creating that many symbols does) to just below the next power of ten, so that
                # the symbols this session creates straddle a digit-count boundary.  Repetition 0
                # measures how many symbols the session creates (n); repetitions 1 and 2 place the
                # boundary after about n/3 and 2n/3 of them (+- a drawn offset).
                cur = Sym._unq_count
                pw = 1000
                while pw - n_syms - 8 < cur:
                    pw *= 10
                off = (rep * n_syms) // 3 + (bnd["d"] + pos * bnd["step"]) % 3 - 1
                tgt = pw - max(0, off)
                if tgt > cur:
                    Sym._unq_count = tgt
            before = Sym._unq_count
            rec, p = run_session(sid, case)
            if rep == 0:
                n_syms = Sym._unq_count - before
            recs.append(rec)
        rec = recs[0]
        # repetitions that deviate from the first one are handed to the parent too (it compares
        # every one of them with its baseline)
        rec["alt"] = [r for r in recs[1:] if (r["steps"], r["c"], r["h"], r["err"]) != (rec["steps"], rec["c"], rec["h"], rec["err"])]
        out[sid] = rec
        if p is not None:
            finals[sid] = p
    # one joint compilation unit over the final procedures of all sessions that have no callees
    # (renamed apart): mixes precisions, externs used at several precisions, memories, window
    # struct shapes and configs in one .c/.h pair
    joint = {"c": None, "h": None}
    try:
        from exo.API import compile_procs_to_strings
        from exo.stdlib.scheduling import rename

        js = [rename(finals[sid], f"foo_s{sid}") for sid in sorted(finals) if not req["sessions"][sid]["prog"]["callees"]]
        if js:
            joint["c"], joint["h"] = compile_procs_to_strings(js, "joint.h")
    except Exception as e:
        joint["c"] = "EXC:" + type(e).__name__
    json.dump([out[k] for k in sorted(out)] + [{"id": "joint", "steps": [], "c": joint["c"], "h": joint["h"], "err": None}], sys.stdout)


def _s(p):
    try:
        return str(p)
    except Exception as e:
        return "UNPRINTABLE:" + type(e).__name__


if __name__ == "__main__":
    main()
