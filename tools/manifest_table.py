CHECKS = {
    "C11": {
        "text": "Model-based exploration: tens of thousands of generated histories of the real equivalence API (plus exhaustive enumeration of all short histories) are compared after every step, for all pairs and in both directions, with closures recomputed from the edge list. Bounded (<=45 steps, <=12 procedures, 5 keys); no proof of absence.",
        "note": "Trusts CPython/Hypothesis and the 40-line reference closure; process-global union-find state is reset per case.",
        "technique": "property-based testing: model-based stateful generation (Hypothesis) + exhaustive small-history enumeration against a reference closure",
    },
}
NOT_APPLICABLE = {}
