"""Reference interpreter R for LoopIR, written from the documentation
(docs/Procedures.md, object_code.md, instructions.md); shares no analysis code with Exo.

It pattern-matches on the ADT classes only.  Semantics:
  * `for i in seq(lo,hi)` / `par(lo,hi)`: i = lo..hi-1 in order (par order is pluggable)
  * control values: Python ints/bools, `/` = floor division, `%` = floor modulo
  * data values: domain-dependent (exact Fractions or machine floats), `/` = true division
  * tensors/windows: views (buffer, offset, strides, shape); calls pass numerics by reference
  * allocations start uninitialised (POISON); poison propagates through arithmetic
  * configuration state: global dict keyed by (config name, field)
Monitors raise `Unsafe(kind, detail)`.
"""
from __future__ import annotations

import math
from fractions import Fraction

from exo.core.LoopIR import LoopIR, T


class Unsafe(Exception):
    def __init__(self, kind, detail=""):
        super().__init__(f"{kind}: {detail}")
        self.kind = kind
        self.detail = detail


class InterpLimit(Exception):
    """step budget exhausted (case is skipped, never a violation)"""


class _Poison:
    __slots__ = ()

    def __repr__(self):
        return "POISON"


POISON = _Poison()


# --------------------------------------------------------------------------- #
# storage


class Buffer:
    __slots__ = ("data", "name", "bid", "typ", "is_arg", "live")
    _n = 0

    def __init__(self, n, name, typ, is_arg=False, fill=POISON):
        self.data = [fill] * n
        self.name = name
        Buffer._n += 1
        self.bid = Buffer._n
        self.typ = typ  # base type (T.f32, ...) or None
        self.is_arg = is_arg
        self.live = True

    def __repr__(self):
        return f"<buf {self.name}#{self.bid} n={len(self.data)}>"


class View:
    """A tensor or window: element (i0..ik) lives at buf.data[off + sum(i*stride)].
    rshape/rmap remember the declared extent of the underlying (root) buffer so that an
    access through a window that leaves a dimension of the root is detected even when the
    flat position still falls inside the backing store: rmap[d] = ("pt", v) | ("dim", k, lo)."""

    __slots__ = ("buf", "off", "strides", "shape", "is_win", "rshape", "rmap")

    def __init__(self, buf, off, strides, shape, is_win=False, rshape=None, rmap=None):
        self.buf = buf
        self.off = off
        self.strides = tuple(strides)
        self.shape = tuple(shape)
        self.is_win = is_win
        if rmap is None:
            rshape = self.shape
            rmap = tuple(("dim", k, 0) for k in range(len(self.shape)))
        self.rshape = tuple(rshape)
        self.rmap = tuple(rmap)

    @staticmethod
    def dense(buf, shape, is_win=False):
        strides = []
        s = 1
        for d in reversed(shape):
            strides.append(s)
            s *= d
        return View(buf, 0, tuple(reversed(strides)), shape, is_win)

    def flat(self, idx):
        o = self.off
        for i, s in zip(idx, self.strides):
            o += i * s
        return o

    def root_index(self, idx):
        return tuple(m[1] if m[0] == "pt" else idx[m[1]] + m[2] for m in self.rmap)

    def retag(self, is_win):
        return View(self.buf, self.off, self.strides, self.shape, is_win, self.rshape, self.rmap)

    def elements(self):
        """all flat positions addressed by this view (for aliasing / overlap)"""
        pos = [self.off]
        for d, s in zip(self.shape, self.strides):
            pos = [p + i * s for p in pos for i in range(d)]
        return pos

    def __repr__(self):
        return f"<view {self.buf.name} off={self.off} st={self.strides} sh={self.shape}>"


# --------------------------------------------------------------------------- #
# numeric domains


def _opaque(name, args):
    """deterministic uninterpreted function into Q (exact domain): equal arguments give
    equal results, different applications almost surely differ."""
    import hashlib

    P = (1 << 61) - 1
    key = "|".join(f"{getattr(a, 'numerator', a) % P}/{getattr(a, 'denominator', 1) % P}" for a in args)
    h = hashlib.sha256((name + "|" + key).encode()).digest()
    return Fraction(int.from_bytes(h[:6], "big") % 1000003 + 1, 997)


class ExactDomain:
    name = "exact"

    def const(self, v, typ):
        if isinstance(v, bool):
            return v
        return Fraction(v)

    def from_input(self, v, typ):
        return Fraction(v)

    def add(self, a, b):
        return a + b

    def sub(self, a, b):
        return a - b

    def mul(self, a, b):
        return a * b

    def div(self, a, b):
        if b == 0:
            raise Unsafe("data-division-by-zero")
        return a / b

    def neg(self, a):
        return -a

    def store(self, v, typ):
        if isinstance(v, Fraction) and v.numerator.bit_length() > 3000:
            raise InterpLimit()  # values exploded (repeated squaring): skip, never a verdict
        return v

    def extern(self, name, args, typ):
        if name == "select":
            return args[2] if args[0] < args[1] else args[3]
        if name == "relu":
            return args[0] if args[0] > 0 else Fraction(0)
        if name == "fmaxf":
            return max(args[0], args[1])
        return _opaque(name, args)


class MachineDomain:
    """machine arithmetic in double with a cast at every store to the buffer precision.
    Inputs are small integers, so +,-,* are exact in every precision used."""

    name = "machine"

    def __init__(self):
        import numpy as np

        self.np = np
        self.casts = {
            "F16": np.float16,
            "F32": np.float32,
            "F64": np.float64,
            "INT8": np.int8,
            "UINT8": np.uint8,
            "UINT16": np.uint16,
            "INT32": np.int32,
            "Num": np.float32,
        }

    def const(self, v, typ):
        if isinstance(v, bool):
            return v
        return float(v)

    def add(self, a, b):
        return a + b

    def sub(self, a, b):
        return a - b

    def mul(self, a, b):
        return a * b

    def div(self, a, b):
        if b == 0:
            raise Unsafe("data-division-by-zero")
        return a / b

    def neg(self, a):
        return -a

    def from_input(self, v, typ):
        c = self.casts.get(type(typ).__name__ if typ is not None else "F32", None)
        if c is None:
            return float(v)
        with self.np.errstate(all="ignore"):
            if c in (self.np.int8, self.np.uint8, self.np.uint16, self.np.int32):
                return float(c(self.np.int64(int(v))))
            return float(c(v))

    def store(self, v, typ):
        c = self.casts.get(type(typ).__name__ if typ is not None else "F32", self.np.float32)
        with self.np.errstate(all="ignore"):
            if c in (self.np.int8, self.np.uint8, self.np.uint16, self.np.int32):
                if v != v or abs(v) > 2**31:
                    raise Unsafe("int-store-out-of-range")
                return float(c(self.np.int64(math.trunc(v)) if float(v).is_integer() else self.np.int64(math.trunc(v))))
            return float(c(v))

    def extern(self, name, args, typ):
        try:
            if name == "select":
                return args[2] if args[0] < args[1] else args[3]
            if name == "relu":
                return args[0] if args[0] > 0 else 0.0
            if name == "fmaxf":
                return max(args[0], args[1])
            if name == "sin":
                return math.sin(args[0])
            if name == "expf":
                return math.exp(args[0])
            if name == "sqrt":
                return math.sqrt(args[0])
            if name == "sigmoid":
                return 1 / (1 + math.exp(-args[0]))
        except (ValueError, OverflowError):
            raise Unsafe("extern-domain-error", name)
        raise NotImplementedError(name)


# --------------------------------------------------------------------------- #


def _is_ctrl(t):
    return isinstance(t, (T.Int, T.Index, T.Size, T.Stride, T.Bool))


class Interp:
    def __init__(self, domain=None, config=None, listener=None, max_steps=200000, par_order=None, check_windows=False):
        self.dom = domain or ExactDomain()
        self.config = dict(config or {})  # (cfgname, field) -> value
        self.listener = listener
        self.steps = 0
        self.max_steps = max_steps
        self.par_order = par_order  # callable(list of ints) -> list of ints
        self.check_windows = check_windows
        self.depth = 0

    # ------------------------------------------------------------------ #
    def run(self, proc, args: dict):
        """args: name string -> int | bool | View"""
        env = {}
        for fa in proc.args:
            nm = str(fa.name)
            if nm not in args:
                raise KeyError(f"missing argument {nm}")
            env[fa.name] = args[nm]
        self._check_sig(proc, env, "entry")
        self._stmts(proc.body, env)
        return self

    def _check_sig(self, proc, env, where):
        for fa in proc.args:
            v = env[fa.name]
            t = fa.type
            if isinstance(t, T.Size):
                if not (isinstance(v, int) and v >= 1):
                    raise Unsafe("size-arg-nonpositive", f"{where}: {fa.name}={v}")
            elif isinstance(t, T.Tensor):
                want = tuple(self._ctrl(e, env) for e in t.hi)
                if tuple(v.shape) != want:
                    raise Unsafe("call-shape-mismatch", f"{where}: {fa.name} has shape {v.shape}, signature says {want}")
                if not t.is_window:
                    # dense tensor parameter: must be row-major packed
                    if View.dense(v.buf, v.shape).strides != v.strides and all(d > 1 for d in v.shape):
                        raise Unsafe("dense-arg-strided", f"{where}: {fa.name}")
        for p in proc.preds:
            ok = self._ctrl(p, env)
            if ok is not True:
                raise Unsafe("callee-assertion" if where != "entry" else "entry-assertion", f"{where}: {p} is {ok}")

    # ------------------------------------------------------------------ #
    def _stmts(self, stmts, env):
        for s in stmts:
            self._stmt(s, env)

    def _tick(self):
        self.steps += 1
        if self.steps > self.max_steps:
            raise InterpLimit()

    def _loc(self, name, idx, env, s, kind):
        v = env[name]
        if not isinstance(v, View):
            raise Unsafe("not-a-buffer", f"{name}")
        if len(idx) != len(v.shape):
            raise Unsafe("rank-mismatch", f"{name}{idx} vs shape {v.shape} at {s.srcinfo}")
        ii = [self._ctrl(e, env) for e in idx]
        for k, (i, d) in enumerate(zip(ii, v.shape)):
            if not (0 <= i < d):
                cls = "window-extent" if v.is_win else "buffer-oob"
                raise Unsafe(cls, f"{kind} {name}{ii} outside extent {v.shape} at {s.srcinfo}")
        ri = v.root_index(ii)
        for r, d in zip(ri, v.rshape):
            if not (0 <= r < d):
                raise Unsafe("buffer-oob", f"{kind} {name}{ii} = element {list(ri)} of the underlying buffer {v.buf.name}, outside its extent {v.rshape} at {s.srcinfo}")
        f = v.flat(ii)
        if not (0 <= f < len(v.buf.data)):
            raise Unsafe("buffer-oob", f"{kind} {name}{ii} -> flat {f} outside backing store of {v.buf.name}")
        return v.buf, f

    def _stmt(self, s, env):
        try:
            return self._stmt1(s, env)
        except KeyError as e:
            if e.args and type(e.args[0]).__name__ == "Sym":
                raise Unsafe("unbound-variable", f"{e.args[0]!r} used outside the scope of its declaration, in: {str(s).splitlines()[0]}")
            raise

    def _stmt1(self, s, env):
        self._tick()
        L = self.listener
        if isinstance(s, (LoopIR.Assign, LoopIR.Reduce)):
            rhs = self._data(s.rhs, env)
            buf, f = self._loc(s.name, s.idx, env, s, "write")
            if isinstance(s, LoopIR.Reduce):
                old = buf.data[f]
                if L:
                    L.access("red", buf, f, s)
                if old is POISON or rhs is POISON:
                    val = POISON
                else:
                    val = self.dom.store(self.dom.add(old, rhs), buf.typ)
            else:
                if L:
                    L.access("w", buf, f, s)
                val = rhs if rhs is POISON else self.dom.store(rhs, buf.typ)
            buf.data[f] = val
        elif isinstance(s, LoopIR.WriteConfig):
            t = s.config.lookup_type(s.field)
            v = self._ctrl(s.rhs, env) if _is_ctrl(t) else self._data(s.rhs, env)
            if L:
                L.config("w", s.config.name(), s.field, v, s)
            self.config[(s.config.name(), s.field)] = v
        elif isinstance(s, LoopIR.Pass):
            pass
        elif isinstance(s, LoopIR.If):
            c = self._ctrl(s.cond, env)
            if L:
                L.branch(s, c)
            self._stmts(s.body if c else s.orelse, env)
        elif isinstance(s, LoopIR.For):
            lo = self._ctrl(s.lo, env)
            hi = self._ctrl(s.hi, env)
            if hi < lo:
                raise Unsafe("loop-hi-below-lo", f"for {s.iter} in ({lo},{hi}) at {s.srcinfo}")
            its = list(range(lo, hi))
            is_par = isinstance(s.loop_mode, LoopIR.Par)
            if is_par and self.par_order is not None:
                its = self.par_order(its)
            if L:
                L.loop_enter(s, lo, hi, is_par)
            for i in its:
                env2 = dict(env)
                env2[s.iter] = i
                if L:
                    L.iter_enter(s, i)
                self._stmts(s.body, env2)
                if L:
                    L.iter_exit(s, i)
            if L:
                L.loop_exit(s)
        elif isinstance(s, LoopIR.Alloc):
            t = s.type
            shape = tuple(self._ctrl(e, env) for e in t.shape()) if t.is_tensor_or_window() else ()
            for d in shape:
                if d < 1:
                    raise Unsafe("alloc-nonpositive", f"{s.name}: {shape} at {s.srcinfo}")
            n = 1
            for d in shape:
                n *= d
            buf = Buffer(n, str(s.name), t.basetype())
            env[s.name] = View.dense(buf, shape)
            if L:
                L.alloc(s, buf)
        elif isinstance(s, LoopIR.Free):
            pass
        elif isinstance(s, LoopIR.WindowStmt):
            env[s.name] = self._window(s.rhs, env)
        elif isinstance(s, LoopIR.Call):
            self._call(s, env)
        else:
            raise NotImplementedError(type(s))

    def _call(self, s, env):
        f = s.f
        if len(s.args) != len(f.args):
            raise Unsafe("call-arity", f"{f.name}")
        cenv = {}
        numeric_views = []
        for a, fa in zip(s.args, f.args):
            t = fa.type
            if t.is_numeric():
                if isinstance(a, LoopIR.WindowExpr):
                    v = self._window(a, env)
                elif isinstance(a, LoopIR.Read):
                    base = env[a.name]
                    if not isinstance(base, View):
                        raise Unsafe("not-a-buffer", f"{a.name}")
                    if a.idx:
                        ii = [self._ctrl(e, env) for e in a.idx]
                        if len(ii) != len(base.shape):
                            raise Unsafe("rank-mismatch", f"call arg {a}")
                        for i, d in zip(ii, base.shape):
                            if not (0 <= i < d):
                                raise Unsafe("window-extent" if base.is_win else "buffer-oob", f"call arg {a.name}{ii} outside {base.shape}")
                        ri = base.root_index(ii)
                        for r, d in zip(ri, base.rshape):
                            if not (0 <= r < d):
                                raise Unsafe("buffer-oob", f"call arg {a.name}{ii} outside the underlying buffer extent {base.rshape}")
                        v = View(base.buf, base.flat(ii), (), (), base.is_win, base.rshape, tuple(("pt", r) for r in ri))
                    else:
                        v = base
                elif isinstance(a, LoopIR.ReadConfig):
                    # scalar passed from configuration state: by value into a temporary
                    val = self.config.get((a.config.name(), a.field), POISON)
                    b = Buffer(1, f"cfg_{a.field}", t.basetype(), fill=val)
                    v = View(b, 0, (), ())
                else:
                    raise Unsafe("call-arg-kind", f"numeric parameter {fa.name} given {type(a).__name__}")
                if isinstance(t, T.Tensor) and t.is_window and not v.is_win:
                    v = v.retag(True)
                elif isinstance(t, T.Tensor) and not t.is_window and v.is_win:
                    v = v.retag(False)
                cenv[fa.name] = v
                numeric_views.append((fa.name, v))
            else:
                cenv[fa.name] = self._ctrl(a, env)
        # aliasing: one allocation reaching two numeric parameters
        for i in range(len(numeric_views)):
            for j in range(i + 1, len(numeric_views)):
                vi, vj = numeric_views[i][1], numeric_views[j][1]
                if vi.buf is vj.buf:
                    if set(vi.elements()) & set(vj.elements()):
                        raise Unsafe("call-aliasing", f"{f.name}: {numeric_views[i][0]} and {numeric_views[j][0]} overlap in {vi.buf.name}")
        self._check_sig(f, cenv, f"call {f.name} at {s.srcinfo}")
        self.depth += 1
        if self.depth > 20:
            raise InterpLimit()
        if self.listener:
            self.listener.call_enter(s)
        self._stmts(f.body, cenv)
        if self.listener:
            self.listener.call_exit(s)
        self.depth -= 1

    # ------------------------------------------------------------------ #
    def _window(self, e, env):
        base = env[e.name]
        if not isinstance(base, View):
            raise Unsafe("not-a-buffer", f"{e.name}")
        if len(e.idx) != len(base.shape):
            raise Unsafe("rank-mismatch", f"window {e}")
        off = base.off
        strides, shape = [], []
        sub = {}  # base dim k -> ("pt", p) | ("dim", newk, lo)
        for k, (w, st, d) in enumerate(zip(e.idx, base.strides, base.shape)):
            if isinstance(w, LoopIR.Point):
                p = self._ctrl(w.pt, env)
                if self.check_windows and not (0 <= p < d):
                    raise Unsafe("window-extent" if base.is_win else "buffer-oob", f"window point {e.name}[..{p}..] outside {base.shape}")
                off += p * st
                sub[k] = ("pt", p)
            else:
                lo, hi = self._ctrl(w.lo, env), self._ctrl(w.hi, env)
                if hi < lo:
                    raise Unsafe("window-negative-extent", f"window interval {e.name}[..{lo}:{hi}..]")
                if self.check_windows and not (0 <= lo <= hi <= d):
                    raise Unsafe("window-extent" if base.is_win else "buffer-oob", f"window interval {e.name}[..{lo}:{hi}..] outside {base.shape}")
                off += lo * st
                sub[k] = ("dim", len(shape), lo)
                strides.append(st)
                shape.append(hi - lo)
        rmap = []
        for m in base.rmap:
            if m[0] == "pt":
                rmap.append(m)
            else:
                s2 = sub[m[1]]
                rmap.append(("pt", s2[1] + m[2]) if s2[0] == "pt" else ("dim", s2[1], s2[2] + m[2]))
        return View(base.buf, off, strides, shape, True, base.rshape, rmap)

    # ------------------------------------------------------------------ #
    def _ctrl(self, e, env):
        """control-typed expression -> int | bool"""
        if isinstance(e, LoopIR.Read):
            v = env[e.name]
            if isinstance(v, View):
                raise Unsafe("data-in-control", f"{e}")
            return v
        if isinstance(e, LoopIR.Const):
            return e.val
        if isinstance(e, LoopIR.USub):
            return -self._ctrl(e.arg, env)
        if isinstance(e, LoopIR.BinOp):
            op = e.op
            if op == "and":
                return bool(self._ctrl(e.lhs, env)) and bool(self._ctrl(e.rhs, env))
            if op == "or":
                return bool(self._ctrl(e.lhs, env)) or bool(self._ctrl(e.rhs, env))
            a = self._ctrl(e.lhs, env)
            b = self._ctrl(e.rhs, env)
            if op == "+":
                return a + b
            if op == "-":
                return a - b
            if op == "*":
                return a * b
            if op == "/":
                if b == 0:
                    raise Unsafe("index-division-by-zero", f"{e}")
                return a // b
            if op == "%":
                if b == 0:
                    raise Unsafe("index-division-by-zero", f"{e}")
                return a % b
            if op == "<":
                return a < b
            if op == ">":
                return a > b
            if op == "<=":
                return a <= b
            if op == ">=":
                return a >= b
            if op == "==":
                return a == b
            raise NotImplementedError(op)
        if isinstance(e, LoopIR.StrideExpr):
            v = env[e.name]
            return v.strides[e.dim]
        if isinstance(e, LoopIR.ReadConfig):
            v = self.config.get((e.config.name(), e.field), POISON)
            if self.listener:
                self.listener.config("r", e.config.name(), e.field, v, e)
            if v is POISON:
                raise Unsafe("config-uninitialised", f"{e.config.name()}.{e.field}")
            return v
        raise NotImplementedError(f"control expr {type(e).__name__}: {e}")

    def _data(self, e, env):
        """numeric (data) expression -> domain value | POISON"""
        d = self.dom
        if isinstance(e, LoopIR.Read):
            v = env[e.name]
            if not isinstance(v, View):
                # index value used as data?  (not produced by the front end)
                return d.const(v, e.type)
            buf, f = self._loc(e.name, e.idx, env, e, "read")
            if self.listener:
                self.listener.access("r", buf, f, e)
            return buf.data[f]
        if isinstance(e, LoopIR.Const):
            return d.const(e.val, e.type)
        if isinstance(e, LoopIR.USub):
            a = self._data(e.arg, env)
            return POISON if a is POISON else d.neg(a)
        if isinstance(e, LoopIR.BinOp):
            a = self._data(e.lhs, env)
            b = self._data(e.rhs, env)
            if a is POISON or b is POISON:
                return POISON
            op = e.op
            if op == "+":
                return d.add(a, b)
            if op == "-":
                return d.sub(a, b)
            if op == "*":
                return d.mul(a, b)
            if op == "/":
                return d.div(a, b)
            raise NotImplementedError(f"data op {op}")
        if isinstance(e, LoopIR.Extern):
            args = [self._data(a, env) for a in e.args]
            if any(a is POISON for a in args):
                return POISON
            return d.extern(e.f.name(), args, e.type)
        if isinstance(e, LoopIR.ReadConfig):
            v = self.config.get((e.config.name(), e.field), POISON)
            if self.listener:
                self.listener.config("r", e.config.name(), e.field, v, e)
            return v
        if isinstance(e, LoopIR.StrideExpr):
            return d.const(env[e.name].strides[e.dim], e.type)
        raise NotImplementedError(f"data expr {type(e).__name__}: {e}")


class Listener:
    """no-op listener; subclass what you need"""

    def access(self, kind, buf, flat, node):
        pass

    def config(self, kind, cfg, field, val, node):
        pass

    def branch(self, s, taken):
        pass

    def loop_enter(self, s, lo, hi, is_par):
        pass

    def iter_enter(self, s, i):
        pass

    def iter_exit(self, s, i):
        pass

    def loop_exit(self, s):
        pass

    def alloc(self, s, buf):
        pass

    def call_enter(self, s):
        pass

    def call_exit(self, s):
        pass
