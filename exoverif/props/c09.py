"""C09 - parallel loops that compile are race-free."""
from __future__ import annotations

import json

from hypothesis import strategies as st

from exo.core.LoopIR import LoopIR

from ..common import Violation, Skip, run_cases, guarded, rejection_types
from ..gen.programs import programs, build, render_program, CONFIG_PRELUDE
from ..exoutil import exec_source
from .. import sched
from ..interp import Listener, Unsafe, InterpLimit, POISON
from ..inputs import run_proc, snapshot, refines
from ..eqcheck import ctrl_valuations, initial_config, CFG_TYPES
from .c01 import safe_str

PROP = "C09"
CTX = None
STEP_OPS = ["lift_alloc", "lift_alloc", "sink_alloc", "reorder_loops", "fission", "fuse", "lift_scope", "reuse_buffer", "bind_expr", "inline", "unroll_loop", "divide_loop", "expand_dim", "simplify", "stage_mem", "autolift_alloc"]

BODIES = [
    ("disjoint", ["x[{i}] = y[{i}] * 2.0"], False),
    ("disjoint-2", ["y[{i}] = x[{i}] + x[{i}]", "x[{i}] = 0.0"], False),
    ("neighbour-read", ["x[{i}] = x[{i} + 1]"], True),
    ("many-to-one-div", ["x[{i} / 2] = y[{i}]"], True),
    ("many-to-one-mod", ["x[{i} % 2] += y[{i}]"], True),
    ("scalar-reduce", ["s += x[{i}]"], True),
    ("scalar-assign", ["s = x[{i}]"], True),
    ("fixed-elem-assign", ["x[0] = y[{i}]"], True),
    ("read-then-reduce", ["y[{i}] = x[{i} + 1]", "x[{i}] += 1.0"], True),
    ("read-then-write-prev", ["y[{i}] = x[{i}]", "x[{i} + 1] = 1.0"], True),
    ("private-alloc", ["t: f32", "t = x[{i}]", "y[{i}] = t + 1.0"], False),
    ("private-alloc-array", ["ta: f32[2]", "ta[0] = x[{i}]", "ta[1] = ta[0]", "y[{i}] = ta[1]"], False),
    ("shared-temp", ["tsh = x[{i}]", "y[{i}] = tsh"], True),
    ("config-write", ["CfgA.a = 1", "y[{i}] = x[{i}]"], True),
    ("config-read", ["y[{i}] = x[{i}] + CfgA.s"], False),
    ("callee-disjoint", ["wr1(x[{i}:{i} + 1], y[{i}:{i} + 1])"], False),
    ("callee-hidden-shared-write", ["wr1(x[0:1], y[{i}:{i} + 1])"], True),
    ("read-only-shared", ["y[{i}] = x[0] + x[n - 1]"], False),
    ("guarded-disjoint", ["if {i} < n - 1:", "    y[{i}] = x[{i} + 1]"], False),
    ("inner-seq-disjoint", ["for q in seq(0, 2):", "    z[{i}, q] = x[{i}]"], False),
    ("inner-seq-shared-col", ["for q in seq(0, 2):", "    z[q, 0] = x[{i}]"], True),
    ("reduce-to-own", ["y[{i}] += x[{i}]"], False),
    ("reduce-shared", ["y[0] += x[{i}]"], True),
]
NESTS = ["top", "in-seq", "in-if", "in-callee", "par-in-par", "seq-in-par"]

PRE = CONFIG_PRELUDE + '''
@proc
def wr1(dst: [f32][1], src: [f32][1]):
    dst[0] = src[0] + 1.0
'''


def pattern_source(b, nest, lo, hi):
    name, lines, racy = BODIES[b % len(BODIES)]
    nest = NESTS[nest % len(NESTS)]
    los = ["0", "1"][lo % 2]
    his = ["n", "n - 1", "4"][hi % 3]
    if "{i} + 1" in "".join(lines) and his == "n":
        his = "n - 1"
    if his == "4":
        # constant trip count needs n >= 5 for x[i+1]
        pass
    it = "i"
    body = [l.format(i=it) for l in lines]
    ind = "    "
    sig = "n: size, x: f32[n + 1], y: f32[n + 1], z: f32[n + 1, 2], s: f32"
    asserts = ["assert n >= 5"] if his == "4" else []
    pre = ["tsh: f32"] if name == "shared-temp" else []

    def loop(mode, itname, lo_, hi_, blines, depth):
        out = [ind * depth + f"for {itname} in {mode}({lo_}, {hi_}):"]
        out += [ind * (depth + 1) + l for l in blines]
        return out

    L = []
    if nest == "top":
        L = loop("par", it, los, his, body, 1)
    elif nest == "in-seq":
        inner = loop("par", it, los, his, body, 0)
        L = loop("seq", "r", "0", "2", inner, 1)
    elif nest == "in-if":
        inner = loop("par", it, los, his, body, 0)
        L = [ind + "if n > 1:"] + [ind * 2 + l for l in inner]
    elif nest == "par-in-par":
        inner = loop("par", it, los, his, body, 0)
        L = loop("par", "r", "0", "2", inner, 1)
    elif nest == "seq-in-par":
        body2 = [l.replace("[i]", "[i]") for l in body]
        inner = loop("seq", "r", "0", "2", body2, 0)
        L = loop("par", it, los, his, inner, 1)
    elif nest == "in-callee":
        callee = ["@proc", f"def inner({sig}):"] + [ind + a for a in asserts] + [ind + p for p in pre] + loop("par", it, los, his, body, 1)
        src = PRE + "\n".join(callee) + "\n\n" + "\n".join(["@proc", f"def foo({sig}):"] + [ind + a for a in asserts] + [ind + "inner(n, x, y, z, s)"]) + "\n"
        return src, name, racy, nest
    src = PRE + "\n".join(["@proc", f"def foo({sig}):"] + [ind + a for a in asserts] + [ind + p for p in pre] + L) + "\n"
    return src, name, racy, nest


class ParSets(Listener):
    def __init__(self):
        self.stack = []  # frames: {stmt, iters: {i: [W,Red,R]}, cur, private:set}
        self.instances = []  # finished frames summaries
        self.conflict = None

    def loop_enter(self, s, lo, hi, is_par):
        if is_par:
            self.stack.append({"stmt": s, "iters": {}, "cur": None, "private": set(), "n": hi - lo})

    def iter_enter(self, s, i):
        if self.stack and self.stack[-1]["stmt"] is s:
            f = self.stack[-1]
            f["cur"] = i
            f["private"] = set()
            f["iters"][i] = (set(), set(), set())

    def alloc(self, s, buf):
        for f in self.stack:
            if f["cur"] is not None:
                f["private"].add(buf.bid)

    def _touch(self, kind, loc, bid):
        for f in self.stack:
            if f["cur"] is None or (bid is not None and bid in f["private"]):
                continue
            W, Red, R = f["iters"][f["cur"]]
            (W if kind == "w" else Red if kind == "red" else R).add(loc)

    def access(self, kind, buf, flat, node):
        self._touch(kind, (buf.name, buf.bid, flat), buf.bid)

    def config(self, kind, cfg, field, val, node):
        self._touch("w" if kind == "w" else "r", ("cfg", cfg, field), None)

    def loop_exit(self, s):
        if self.stack and self.stack[-1]["stmt"] is s:
            f = self.stack.pop()
            touched = 0
            writers, touchers = {}, {}
            for i, (W, Red, R) in f["iters"].items():
                for loc in W | Red:
                    writers.setdefault(loc, set()).add(i)
                for loc in W | Red | R:
                    touchers.setdefault(loc, set()).add(i)
                touched += len(W | Red | R)
            for loc, ws in writers.items():
                ts = touchers[loc]
                if len(ts) > 1 and self.conflict is None:
                    i = sorted(ws)[0]
                    j = sorted(ts - {i})[0]
                    kinds = []
                    for it_ in (i, j):
                        W, Red, R = f["iters"][it_]
                        kinds.append("writes" if loc in W else "reduces" if loc in Red else "reads")
                    self.conflict = f"par loop over {s.iter} at {s.srcinfo}: iteration {i} {kinds[0]} and iteration {j} {kinds[1]} {loc[0]}[flat {loc[-1]}]" if loc[0] != "cfg" else f"par loop over {s.iter}: iterations {i} and {j} both touch config {loc[1]}.{loc[2]} ({kinds})"
            self.instances.append({"iters": len(f["iters"]), "touched": touched})


def check_case(case):
    import exo.stdlib.scheduling as S
    from exo.API import compile_procs_to_strings
    from exo.core.memory import MemGenError
    from exo.core.configs import ConfigError

    classes = []
    if case["kind"] == "pattern":
        src, name, racy, nest = pattern_source(case["b"], case["nest"], case["lo"], case["hi"])
        try:
            env = exec_source(src)
        except rejection_types() as e:
            raise Skip("frontend-reject")
        p = env["foo"]
        classes += ["pattern:" + name, "nest:" + nest, "expected-racy" if racy else "expected-clean"]
        has_cfg = True
        text = src
    else:
        try:
            env, p0 = build(case["prog"])
        except rejection_types():
            raise Skip("frontend-reject")
        ir0 = p0.INTERNAL_proc()
        st_, _ = sched.collect(ir0)
        loops = [s for s in st_ if s.kind == "For"]
        if not loops:
            raise Skip("no-loop")
        p = p0
        done = []
        for k in case["loops"][:2]:
            site = loops[k % len(loops)]
            try:
                p = S.parallelize_loop(p, sched.cursor_at(p0, site.path))
                done.append(sched.path_str(site.path))
            except rejection_types():
                pass
        if not done:
            raise Skip("parallelize-rejected")
        classes += ["G+parallelize_loop", f"par-loops={len(done)}"]
        has_cfg = case["prog"].get("cfg", False)
        text = safe_str(p)
    v = case["val"]
    results = []
    nontriv, ran_total, n_compiled = check_compiled(p, case, classes, text, has_cfg, "as written")
    # then: schedule the (already compiled) procedure and compile again -- the verdict of an
    # earlier compile must not leak into a later one
    sctx = sched.SchedCtx(env)
    q = p
    for step in case.get("steps", []):
        q2, outcome, desc = sched.apply_step_excl(PROP, q, step, sctx)
        if outcome != "accepted":
            continue
        q = q2
        nt, ran, nc = check_compiled(q, case, classes, safe_str(q), has_cfg, f"after {json.dumps(desc, default=str)}")
        nontriv = nontriv or nt
        ran_total += ran
        n_compiled += nc
        classes.append("rescheduled:" + desc["op"])
    if n_compiled and ran_total == 0:
        raise Skip("no-safe-input")
    return {"nontrivial": nontriv, "digest": text + json.dumps(case.get("steps", [])), "classes": classes, "sample": {"program": safe_str(p), "steps": case.get("steps", []), "verdict": "compiled %d version(s), race-free on %d runs" % (n_compiled, ran_total)} if n_compiled else None}


def check_compiled(p, case, classes, text, has_cfg, when):
    from exo.API import compile_procs_to_strings
    from exo.core.memory import MemGenError
    from exo.core.configs import ConfigError

    try:
        compile_procs_to_strings([p], "gen.h")
        compiled = True
    except (TypeError, MemGenError, ConfigError, NotImplementedError, rejection_types()[0]) as e:
        compiled = False
    except (KeyboardInterrupt, SystemExit, MemoryError):
        raise
    except BaseException as e:  # noqa
        return False, 0, 0
    classes.append("compiled" if compiled else "compile-rejected")
    if not compiled:
        return False, 0, 0
    ir = p.INTERNAL_proc()
    v = case["val"]
    vals, _ = ctrl_valuations(ir, size_max=5, limit=4, pick=v["pick"])
    cfg0 = initial_config(v["cfg"], present=has_cfg)
    nontriv = False
    ran = 0
    for c in vals:
        fv = {"ctrl": c, "fill": v["fill"], "layout": 0, "config": cfg0, "dense": True}
        ls = ParSets()
        try:
            backs, cfg = run_proc(ir, fv, listener=ls, cfg_types=CFG_TYPES, max_steps=30000)
        except Unsafe:
            continue
        except (InterpLimit, RecursionError):
            continue
        ran += 1
        if ls.conflict:
            raise Violation(
                {"kind": "race-in-compiled-par-loop", "src": case["kind"], "pattern": classes[0]},
                f"compile succeeded ({when}), but on input {json.dumps(fv['ctrl'])}: {ls.conflict}\n{safe_str(p)}",
            )
        seq_state = snapshot(backs, cfg)
        try:
            b2, c2 = run_proc(ir, fv, cfg_types=CFG_TYPES, max_steps=30000, par_order=lambda its: list(reversed(its)))
        except (Unsafe, InterpLimit, RecursionError):
            continue
        rev_state = snapshot(b2, c2)
        bad = refines(seq_state[0], rev_state[0])
        if bad or {k: v_ for k, v_ in seq_state[1].items() if v_ is not POISON} != {k: v_ for k, v_ in rev_state[1].items() if v_ is not POISON}:
            raise Violation(
                {"kind": "order-dependent-result", "src": case["kind"], "pattern": classes[0]},
                f"compile succeeded ({when}), but executing the par loops in reverse order changes the result on input {json.dumps(fv['ctrl'])}: {bad}\n{safe_str(p)}",
            )
        if any(i["iters"] >= 2 and i["touched"] >= 1 for i in ls.instances):
            nontriv = True
    return nontriv, ran, 1


def case_strategy():
    val = st.fixed_dictionaries({"fill": st.integers(0, 3), "cfg": st.lists(st.integers(0, 20), min_size=5, max_size=5), "pick": st.integers(0, 20)})
    stp = st.lists(st.tuples(st.sampled_from(STEP_OPS), st.integers(0, 20), st.integers(0, 11), st.integers(0, 23)).map(list), min_size=0, max_size=2)
    pat = st.fixed_dictionaries({"steps": stp, "kind": st.just("pattern"), "b": st.integers(0, len(BODIES) - 1), "nest": st.integers(0, len(NESTS) - 1), "lo": st.integers(0, 1), "hi": st.integers(0, 2), "val": val})
    gp = st.fixed_dictionaries({"steps": stp, "kind": st.just("G"), "prog": programs(max_stmts=9, config_pct=10), "loops": st.lists(st.integers(0, 9), min_size=1, max_size=2), "val": val})
    return st.one_of(pat, gp, gp)


def run(ctx):
    global CTX
    CTX = ctx
    run_cases(ctx, case_strategy(), guarded(ctx, check_case), ctx.budget(1600, 12800))
