#!/venv/bin/python
"""Regenerate MANIFEST.json from the table below (keeps it schema-valid)."""
import json, os, sys

ROOT = os.path.dirname(os.path.dirname(os.path.abspath(__file__)))
sys.path.insert(0, ROOT)
from tools.manifest_table import CHECKS, NOT_APPLICABLE, THOROUGH_VALIDATED  # noqa

props = [json.loads(l) for l in open(os.path.join(ROOT, "properties.jsonl"))]
ids = [p["id"] for p in props]
checks = []
for pid in ids:
    if pid not in CHECKS:
        continue
    c = CHECKS[pid]
    checks.append(
        {
            "property_id": pid,
            "quick_cmd": f"./check {pid} --tier quick",
            **({"thorough_cmd": f"./check {pid} --tier thorough"} if pid in THOROUGH_VALIDATED else {}),
            "evidence_file": f"evidence/{pid}.json",
            "replay_cmd_template": f"./check {pid} --replay {{path}}",
            "engine": "exoverif",
            "level_claimed": {"category": "exploration", "text": c["text"], "design_ref": c.get("ref", f"DESIGN.md §3 {pid}")},
            "level_note": c["note"],
            "technique": c["technique"],
        }
    )
na = [{"property_id": pid, "reason": NOT_APPLICABLE.get(pid, "no check registered yet in this revision (work in progress; see DESIGN.md §8)")} for pid in ids if pid not in CHECKS]
m = {
    "version": 1,
    "setup_cmd": "/venv/bin/python -c 'import hypothesis' 2>/dev/null || /venv/bin/pip install --no-index --find-links /opt/veriftools/wheels hypothesis",
    "hooks": {
        "guard": "EXO_VERIF",
        "enable": "no hooks: checks import exo from /repo/src (editable install in /venv) as it stands; EXO_VERIF is reserved and unused",
        "baseline_off_cmd": "cd /repo && /venv/bin/python -m pytest -ra -q -p no:cacheprovider --timeout=900 --continue-on-collection-errors",
        "source_commits": [],
        "add_only": True,
    },
    "engines": [
        {
            "name": "exoverif",
            "path": "exoverif/",
            "serves_properties": [c["property_id"] for c in checks],
            "kind_free_text": "Hypothesis-driven property-based testing: grammar-based Exo program generator, independent reference interpreter, schedule driver, gcc+sanitizer C harness, model-based state machines; 16-way sharded runner with JSON replay and structural shrinking",
        }
    ],
    "checks": checks,
    "not_applicable": na,
    "notes": "All checks: ./check <ID> [--tier quick|thorough] [--replay F]; VERIF_SEED selects the Hypothesis seed; exit 0 held / 1 VIOLATION / 2 harness error. known_findings.json lists genuine defects (known / fixed).",
}
json.dump(m, open(os.path.join(ROOT, "MANIFEST.json"), "w"), indent=1)
print("checks:", [c["property_id"] for c in checks], "n/a:", [n["property_id"] for n in na])
