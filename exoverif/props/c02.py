"""C02 - generated C computes what the procedure means (differential R(Machine) vs gcc)."""
from __future__ import annotations

import json

from hypothesis import strategies as st

from ..common import Violation, Skip, run_cases, guarded, rejection_types
from ..gen.templates import programs_or_templates
from ..gen.programs import programs, build, render_program, CFG_FIELDS
from .. import sched
from ..charness import emit_c, CompileRejected, make_driver, build_and_run, parse_output, sanitizer_kind, close, CTYPE
from ..interp import MachineDomain, POISON
from ..eqcheck import ctrl_valuations, run_outcome, initial_config, CFG_TYPES
from .c01 import safe_str, step_strategy
from ..findings import excluded_step

PROP = "C02"
CTX = None
CFG_CTYPE = {"index": "int_fast32_t", "f32": "float", "bool": "bool"}


def cfg_decl_for(prog_has_cfg, used):
    def f(fv):
        out = {}
        if not prog_has_cfg:
            return out
        for (cn, fld), ty in CFG_FIELDS.items():
            if cn in used:
                out[(cn, fld)] = (fv["config"].get(f"{cn}.{fld}", 0), CFG_CTYPE[ty])
        return out

    return f


def c_features(c):
    f = []
    if "struct exo_win" in c:
        f.append("window-struct")
    if ".strides[" in c:
        f.append("runtime-strides")
    if "exo_floor_div" in c:
        f.append("exo_floor_div")
    if " % " in c:
        f.append("c-mod")
    if "static void" in c:
        f.append("callee")
    if "ctxt->" in c:
        f.append("config")
    if "((" in c and "_t) " in c or "(float)" in c or "(double)" in c:
        f.append("cast")
    if "*" in c and "&" in c:
        f.append("by-ref")
    if "_1" in c:
        f.append("renamed")
    if "static " in c and "[" in c:
        pass
    return f


def compile_and_run(p, env, case, want_sanitizer=False):
    """shared by C02 and C08.  -> dict(result...) or raises Skip/Violation"""
    ir = p.INTERNAL_proc()
    v = case["val"]
    try:
        c_text, h_text = emit_c([p])
    except CompileRejected:
        raise Skip("exo-compile-rejected")
    except (KeyboardInterrupt, SystemExit, MemoryError):
        raise
    except BaseException as e:  # noqa -- undocumented internal error: C04's verdict, tallied here
        raise Skip("exo-compile-internal-error(C04):" + type(e).__name__)
    vals, total = ctrl_valuations(ir, limit=3, pick=v["pick"])
    cfg0 = initial_config(v["cfg"], present=case["prog"].get("cfg", False))
    dom = MachineDomain()
    good = []
    for c in vals:
        fv = {"ctrl": c, "fill": v["fill"], "layout": v["layout"], "config": cfg0}
        o = run_outcome(ir, fv, dom=dom, cfg_types=CFG_TYPES, max_steps=20000)
        if o.unsafe is None and not o.limit:
            good.append((fv, o))
    if not good:
        raise Skip("no-safe-input")
    used_cfgs = {cn for cn in ("CfgA", "CfgB") if f"struct {cn}" in h_text}
    driver, metas = make_driver(ir, h_text, [fv for fv, _ in good], cfg_decl_for(case["prog"].get("cfg", False), used_cfgs))
    r = build_and_run(c_text, h_text, driver)
    return ir, c_text, h_text, driver, metas, good, r


def compare(ir, metas, good, r, c_text, where):
    outs = parse_output(r.stdout)
    if len(outs) != len(good):
        raise Violation({"kind": "driver-output-truncated"}, f"{where}: expected {len(good)} result blocks, got {len(outs)}\nstdout tail: {r.stdout[-300:]}\nstderr: {r.stderr[-500:]}")
    stores = False
    for (fv, o), got, meta in zip(good, outs, metas):
        for nm, (n, cty) in meta.items():
            exp = o.bufs[nm]
            g = got["bufs"].get(nm)
            if g is None or len(g) != len(exp):
                raise Violation({"kind": "driver-mismatch"}, f"{where}: buffer {nm} missing in output")
            for i, (a, b) in enumerate(zip(exp, g)):
                if a is POISON:
                    continue
                if not close(float(a), b, cty):
                    raise Violation(
                        {"kind": "c-differs-from-semantics", "ctype": cty},
                        f"{where}\ninput {json.dumps(fv)}\nargument {nm} backing[{i}]: interpreter {float(a)!r}, compiled C {b!r}\n--- C:\n{c_text[-2500:]}",
                    )
        for k, val in got["cfg"].items():
            cn, fld = k.split(".")
            e = o.cfg.get((cn, fld), POISON)
            if e is POISON:
                continue
            ev = float(e) if not isinstance(e, bool) else float(e)
            if not close(ev, val, "float"):
                raise Violation({"kind": "context-differs"}, f"{where}\ninput {json.dumps(fv)}\ncontext field {k}: interpreter {ev}, compiled C {val}\n--- C:\n{c_text[-2500:]}")
        from ..eqcheck import did_store

        stores = stores or did_store(o, fv, ir)
    return stores


def check_case(case):
    try:
        env, p0 = build(case["prog"])
    except rejection_types():
        raise Skip("frontend-reject")
    sctx = sched.SchedCtx(env)
    p = p0
    acc = []
    for step in case["steps"]:
        if excluded_step(PROP, step, p):
            continue
        q, outcome, desc = sched.apply_step(p, step, sctx)
        if outcome == "accepted":
            desc.pop("err", None)
            acc.append(desc)
            p = q
    ir, c_text, h_text, driver, metas, good, r = compile_and_run(p, env, case)
    where = f"program:\n{safe_str(p)}\naccepted steps: {json.dumps(acc, default=str)}"
    if not r.compile_ok:
        if CTX is not None:
            CTX.classes["gcc-rejects(C15)"] += 1
        raise Skip("gcc-rejects(C15)")
    if r.timeout:
        raise Skip("run-timeout")
    sk = sanitizer_kind(r.stderr)
    if sk or r.exit != 0:
        if CTX is not None:
            CTX.classes["sanitizer(C08):" + str(sk)] += 1
        raise Skip("sanitizer-report(C08)")
    stores = compare(ir, metas, good, r, c_text, where)
    feats = c_features(c_text)
    return {
        "nontrivial": stores and bool(feats),
        "digest": {"p": render_program(case["prog"]), "s": acc},
        "classes": ["prec:" + case["prog"]["prec"], f"steps={len(acc)}"] + ["c:" + f for f in feats],
        "sample": {"program": safe_str(p), "steps": acc, "inputs": [fv["ctrl"] for fv, _ in good], "c_features": feats},
    }


def case_strategy(names, max_steps=3):
    return st.fixed_dictionaries(
        {
            "prog": programs_or_templates(15, max_stmts=10),
            "steps": st.lists(step_strategy(names), min_size=0, max_size=max_steps),
            "val": st.fixed_dictionaries(
                {"fill": st.integers(0, 5), "layout": st.integers(0, 5), "cfg": st.lists(st.integers(0, 20), min_size=5, max_size=5), "pick": st.integers(0, 50)}
            ),
        }
    )


def run(ctx):
    global CTX
    CTX = ctx
    names = sched.op_names(groups=("core", "storage", "loop"), weights={"make_instr": 0})
    from ..common import run_systematic
    from ..gen.templates import distinct_step_cases

    # templates (as written: step list empty for one case per program) and after every distinct
    # single call of the catalogue, thinned in the quick tier (one gcc build per case)
    val = {"fill": 1, "layout": 2, "cfg": [3, 5, 1, 2, 4], "pick": 7}
    quick = ctx.tier == "quick"
    run_systematic(ctx, distinct_step_cases(ctx.shard, ctx.nshards, [n for n in set(names)], val, params=(0, 1, 2, 3) if quick else (0, 1, 2, 3, 5, 7)), guarded(ctx, check_case), keep_one_in=100 if quick else 3, label="template-single-steps", presharded=True)
    run_cases(ctx, case_strategy(names), guarded(ctx, check_case), ctx.budget(320, 2560))
