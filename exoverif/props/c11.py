"""C11 - procedure-equivalence tracking is a sound congruence (model-based)."""
from __future__ import annotations

import itertools

from hypothesis import strategies as st

from ..common import Violation, Skip, run_cases, guarded, rejection_types
from ..exoutil import exec_source

PROP = "C11"
NKEYS = 5
MAXP = 12

_SRC = '''
@config
class CfgA:
    a: index
    b: f32

@proc
def callee(n: size, x: f32[n]):
    for i in seq(0, n):
        x[i] = 0.0

@proc
def base(n: size, m: index, x: f32[n, n], y: f32[n]):
    assert m >= 0
    callee(n, y)
    for i in seq(0, n):
        x[i, 0] = y[i]
'''
_env = None


def env():
    global _env
    if _env is None:
        _env = exec_source(_SRC)
    return _env


def reset_global_state():
    import exo.core.proc_eqv as pe

    pe._UF_Unv = pe._UnionFind()
    pe._UF_Strict = pe._UnionFind()
    pe._UF_Unv_key = dict()
    # the library callee outlives the reset: declare it again, as at definition time
    pe.decl_new_proc(env()["callee"].INTERNAL_proc())


# --------------------------------------------------------------------------- #
# reference model


class Model:
    def __init__(self):
        self.n = 0
        self.edges = []  # (a, b, frozenset(keyidx))

    def new(self):
        self.n += 1
        return self.n - 1

    def closure(self, pred):
        adj = {i: set() for i in range(self.n)}
        for a, b, K in self.edges:
            if pred(K):
                adj[a].add(b)
                adj[b].add(a)
        comp = {}
        for s in range(self.n):
            if s in comp:
                continue
            stack = [s]
            comp[s] = s
            while stack:
                u = stack.pop()
                for v in adj[u]:
                    if v not in comp:
                        comp[v] = s
                        stack.append(v)
        return comp

    def relations(self):
        r_all = self.closure(lambda K: True)
        r_k = [self.closure(lambda K, k=k: k not in K) for k in range(NKEYS)]
        return r_all, r_k


# --------------------------------------------------------------------------- #


def check_case(case):
    from exo import Procedure
    from exo.core.prelude import Sym
    import exo.core.proc_eqv as pe
    from exo.stdlib.scheduling import rename, write_config, delete_config, call_eqv

    e = env()
    if not case.get("keep_state"):
        reset_global_state()
    base_ir = e["base"].INTERNAL_proc()
    callee_ir = e["callee"].INTERNAL_proc()
    CfgA = e["CfgA"]
    keys = [None] * NKEYS  # lazily created Sym keys; index 0 is the real CfgA.a key
    mentioned = []

    def key(i):
        if keys[i] is None:
            keys[i] = CfgA._INTERNAL_sym("a") if i == 0 else Sym(f"k{i}")
        return keys[i]

    model = Model()
    procs = []  # Procedure objects (index = model node)
    kind = []  # 'base' (contains a call) | 'callee'
    callee_of = []  # node index of the procedure called by a 'base' node
    hist = []
    late_key = False
    cnt = itertools.count()

    sigid = []  # procedures with different signatures are never asserted equal by a user

    def add(p, knd, cal, sg=None):
        procs.append(p)
        kind.append(knd)
        callee_of.append(cal)
        sigid.append(sg if sg is not None else next(cnt) + 1000)
        return model.new()

    def fresh(ir, prov=None, K=None, src=None):
        ir = ir.update(name=f"p{next(cnt)}")
        p = Procedure(ir, _provenance_eq_Procedure=prov, _mod_config=K)
        if src is None:
            return add(p, "base", 0, "base")
        return add(p, kind[src], callee_of[src], sigid[src])

    def kset(mask):
        return frozenset(i for i in range(NKEYS) if mask >> i & 1)

    def all_queries(step_no):
        r_all, r_k = model.relations()
        n = len(procs)
        multi = False
        for a in range(n):
            for b in range(n):
                ia, ib = procs[a].INTERNAL_proc(), procs[b].INTERNAL_proc()
                exp_eq = r_all[a] == r_all[b]
                exp_keys = {k for k in range(NKEYS) if exp_eq and r_k[k][a] != r_k[k][b]}
                got_eq, got_keys = pe.get_strictest_eqv_proc(ia, ib)
                got_idx = set()
                for gk in got_keys:
                    idx = [i for i, kk in enumerate(keys) if kk is gk]
                    if not idx:
                        if case.get("keep_state"):
                            # keys of earlier cases can never separate this case's procs
                            raise Violation(
                                {"kind": "foreign-key-reported"},
                                f"step {step_no}: strictest({a},{b}) reports key {gk!r} never used in this history\n{hist}",
                            )
                        raise Violation(
                            {"kind": "unknown-key-reported"},
                            f"step {step_no}: strictest({a},{b}) reports unknown key {gk!r}\n{hist}",
                        )
                    got_idx.add(idx[0])
                if bool(got_eq) != exp_eq or got_idx != exp_keys:
                    raise Violation(
                        {"kind": "strictest-mismatch", "dir": "over" if (got_eq and not exp_eq) or (exp_keys - got_idx) else "under"},
                        f"step {step_no}: get_strictest_eqv_proc(p{a},p{b}) = ({got_eq},{sorted(got_idx)}) "
                        f"but closure of history gives ({exp_eq},{sorted(exp_keys)})\nhistory={hist}",
                    )
                if exp_eq and a != b and len(exp_keys) > 0:
                    multi = True
                # check_eqv_proc for a few modulo sets (only created keys can be passed)
                for mask in case["qmasks"]:
                    S = kset(mask)
                    Sreal = frozenset(keys[i] for i in S if keys[i] is not None)
                    Seff = {i for i in S if keys[i] is not None}
                    exp = exp_eq and all(r_k[k][a] == r_k[k][b] for k in range(NKEYS) if k not in Seff)
                    got = pe.check_eqv_proc(ia, ib, Sreal)
                    if bool(got) != exp:
                        raise Violation(
                            {"kind": "check-eqv-mismatch", "dir": "over" if got else "under"},
                            f"step {step_no}: check_eqv_proc(p{a},p{b},{sorted(Seff)}) = {got}, closure says {exp}\nhistory={hist}",
                        )
                exp_iseq = exp_eq and not exp_keys
                got_iseq = procs[a].is_eq(procs[b])
                if bool(got_iseq) != exp_iseq:
                    raise Violation(
                        {"kind": "is_eq-mismatch", "dir": "over" if got_iseq else "under"},
                        f"step {step_no}: p{a}.is_eq(p{b}) = {got_iseq}, closure says {exp_iseq}\nhistory={hist}",
                    )
        return multi

    add(e["callee"], "callee", None, "callee")
    fresh(base_ir)
    hist.append(["init: p0=callee, p1=new base"])
    swaps = 0
    multi = False
    for sn, step in enumerate(case["steps"]):
        op, x, y, mask = step
        n = len(procs)
        a, b = x % n, y % n
        if n >= MAXP and op in (0, 1, 3, 4, 5, 6):
            op = 2
        if op == 0:
            i = fresh(base_ir)
            hist.append(["new", i])
        elif op == 1:
            K = kset(mask)
            for k in K:
                if keys[k] is None and len(model.edges) >= 2:
                    late_key = True
            Kreal = frozenset(key(k) for k in K)
            i = fresh(procs[a].INTERNAL_proc(), procs[a], Kreal, src=a)
            model.edges.append((a, i, K))
            hist.append(["derive", a, i, sorted(K)])
        elif op == 2:
            if sigid[a] != sigid[b]:
                continue  # asserting procedures of different signature equal is API misuse
            procs[a].unsafe_assert_eq(procs[b])
            model.edges.append((a, b, frozenset()))
            hist.append(["unsafe_assert_eq", a, b])
        elif op == 3:
            q = rename(procs[a], f"r{next(cnt)}")
            i = add(q, kind[a], callee_of[a], sigid[a])
            model.edges.append((a, i, frozenset()))
            hist.append(["rename", a, i])
        elif op == 4:
            # signature-changing utilities: new origin, no edge
            p = procs[a]
            args = [str(x.name) for x in p.INTERNAL_proc().args]
            which = mask % 3
            try:
                if which == 0:
                    q = p.partial_eval(m=1 + mask % 4) if "m" in args else p.partial_eval(n=1 + mask % 4)
                elif which == 1:
                    q = p.add_assertion("n > 1")
                else:
                    q = p.transpose(p.args()[[str(x.name) for x in p.INTERNAL_proc().args].index("x")])
            except (*rejection_types(), KeyError):
                continue
            i = add(q, kind[a], callee_of[a])
            hist.append(["sigchange", which, a, i])
        elif op == 5:
            # real config-writing step: insert CfgA.a = <const> before the first statement;
            # nothing reads CfgA.a so the reported mod-set must be {CfgA.a} (key 0) and the
            # step is accepted.
            p = procs[a]
            if keys[0] is None and len(model.edges) >= 2:
                late_key = True
            key(0)
            try:
                # appended at the very end with a never-used constant: not overwritten,
                # not read later, not provably unchanged => reported set must be {CfgA.a}
                q = write_config(p, p.body()[-1].after(), CfgA, "a", str(100 + next(cnt)))
            except rejection_types():
                continue
            i = add(q, kind[a], callee_of[a], sigid[a])
            model.edges.append((a, i, frozenset([0])))
            hist.append(["write_config", a, i])
        elif op == 6:
            # call_eqv: replace the callee c of base-kind p_a by callee-kind p_b.  Must be
            # refused unless c and p_b are connected in the history (R_all); if connected
            # modulo a set of REAL config keys, the step is an edge with exactly that set
            # (nothing after the call overwrites or reads CfgA.a).
            if kind[a] != "base" or kind[b] != "callee" or sigid[b] != sigid[callee_of[a]]:
                continue
            c = callee_of[a]
            r_all, r_k = model.relations()
            exp_ok = r_all[c] == r_all[b]
            exp_keys = {k for k in range(NKEYS) if exp_ok and r_k[k][c] != r_k[k][b]}
            if exp_ok and not exp_keys <= {0}:
                continue  # synthetic keys cannot be looked up as config fields
            pa = procs[a]
            call = [x for x in pa.body() if type(x._impl._node).__name__ == "Call"]
            if not call:
                continue
            try:
                q = call_eqv(pa, call[0], procs[b])
            except rejection_types() as ex:
                if exp_ok:
                    raise Violation(
                        {"kind": "call_eqv-refused-related"},
                        f"step {sn}: call_eqv(p{a}: callee p{c} -> p{b}) refused although history connects them: {ex}\n{hist}",
                    )
                hist.append(["call_eqv-refused", a, b])
                swaps += 1
                continue
            if not exp_ok:
                raise Violation(
                    {"kind": "call_eqv-accepted-unrelated"},
                    f"step {sn}: call_eqv(p{a}: callee p{c} -> p{b}) accepted although the history does not connect p{c} and p{b}\n{hist}",
                )
            i = add(q, "base", b, sigid[a])
            model.edges.append((a, i, frozenset(exp_keys)))
            hist.append(["call_eqv", a, b, i, sorted(exp_keys)])
            swaps += 1
        all_m = all_queries(sn)
        multi = multi or all_m
    nedges = len(model.edges)
    return {
        "nontrivial": late_key and multi,
        "digest": hist,
        "classes": [
            f"procs={min(len(procs), 12)}",
            "late_key" if late_key else "no_late_key",
            "multi_K_path" if multi else "no_multi_K_path",
            f"edges={min(nedges, 20)//5*5}+",
            "keep_state" if case.get("keep_state") else "reset_state",
            "call_eqv" if swaps else "no_call_eqv",
        ],
        "sample": {"history": hist},
    }


def case_strategy(max_steps):
    step = st.tuples(
        st.sampled_from([0, 1, 1, 1, 1, 2, 3, 4, 5, 6, 6]),
        st.integers(0, 11),
        st.integers(0, 11),
        st.integers(0, 2**NKEYS - 1),
    ).map(list)
    return st.fixed_dictionaries(
        {
            "steps": st.lists(step, min_size=1, max_size=max_steps),
            "qmasks": st.lists(st.integers(0, 2**NKEYS - 1), min_size=1, max_size=3),
            "keep_state": st.integers(0, 7).map(lambda v: v == 0),
        }
    )


def exhaustive(ctx):
    """All histories: <=4 procs, keys {1,2}, <=4 edges, each edge (a, b|new, K)."""
    masks = [0, 2, 4, 6]
    ops = []
    for a in range(4):
        for m in masks:
            ops.append([1, a, 0, m])  # derive from a
        for b in range(a + 1, 4):
            ops.append([2, a, b, 0])
    ops.append([0, 0, 0, 0])
    n = 0
    lens = (1, 2, 3) if ctx.tier == "quick" else (1, 2, 3, 4)
    chk = guarded(ctx, check_case)
    for L in lens:
        for idx, seq in enumerate(itertools.product(ops, repeat=L)):
            if idx % ctx.nshards != ctx.shard:
                continue
            case = {"steps": [list(s) for s in seq], "qmasks": [0, 2], "keep_state": False}
            try:
                info = chk(case)
            except Violation as v:
                ctx.evaluations += 1
                ctx.fail(v, case)
                continue
            except Skip:
                ctx.evaluations += 1
                continue
            info["classes"].append("exhaustive")
            ctx.record(info, case)
            n += 1
    ctx.extra["exhaustive_histories"] = n


def run(ctx):
    exhaustive(ctx)
    run_cases(
        ctx,
        case_strategy(30 if ctx.tier == "quick" else 45),
        guarded(ctx, check_case),
        ctx.budget(6000, 150000),
    )
