"""C01 - scheduling rewrites preserve procedure semantics."""
from __future__ import annotations

import json

from hypothesis import strategies as st

from ..common import Violation, Skip, run_cases, guarded, rejection_types
from ..gen.templates import programs_or_templates
from ..gen.programs import programs, build, render_program
from .. import sched
from ..eqcheck import ctrl_valuations, run_outcome, compare_outcomes, cfg_key_names, did_store, initial_config, CFG_TYPES
from ..findings import excluded_step

PROP = "C01"
CTX = None
OPNAMES = None


def step_strategy(names):
    return st.tuples(st.sampled_from(names), st.integers(0, 40), st.integers(0, 23), st.integers(0, 47)).map(list)


def case_strategy(max_steps, names, **gen_opts):
    return st.fixed_dictionaries(
        {
            "prog": programs_or_templates(gen_opts.pop("template_pct", 20), **gen_opts),
            "steps": st.lists(step_strategy(names), min_size=1, max_size=max_steps),
            "val": st.fixed_dictionaries(
                {
                    "fill": st.integers(0, 5),
                    "layout": st.integers(0, 5),
                    "cfg": st.lists(st.integers(0, 20), min_size=5, max_size=5),
                    "pick": st.integers(0, 50),
                }
            ),
        }
    )


def _stmt_class(det):
    """for interpreter events: which kind of statement tripped the monitor"""
    import re

    m = re.search(r"in: (.*)", det)
    if not m:
        return "-"
    t = m.group(1)
    if re.match(r"^\w+: ", t):
        return "alloc"
    if re.match(r"^for ", t):
        return "for"
    if re.match(r"^\w+ = \w+\[.*:", t):
        return "window"
    return "other"


def safe_str(p):
    try:
        return str(p)
    except Exception as e:  # printing itself failed (C04/C17 material)
        return f"<unprintable: {type(e).__name__}> {p.INTERNAL_proc()!r}"[:3000]


def check_schedule(case, prop, nvals, after_step=None, unsafe_is_violation=False):
    """shared by C01/C04/C10: build, apply steps, compare every accepted step with p0.
    after_step(p_prev, p_new, desc, k) may raise Violation (extra per-step oracles)."""
    from exo.core.proc_eqv import get_strictest_eqv_proc

    try:
        env, p0 = build(case["prog"])
    except rejection_types() as e:
        raise Skip("frontend-reject")
    ir0 = p0.INTERNAL_proc()
    v = case["val"]
    vals, total = ctrl_valuations(ir0, limit=nvals, pick=v["pick"])
    if not vals:
        raise Skip("no-admissible-input")
    cfg0 = initial_config(v["cfg"], present=case["prog"].get("cfg", False))
    full_vals = [{"ctrl": c, "fill": v["fill"], "layout": v["layout"], "config": cfg0} for c in vals]
    outs0 = [run_outcome(ir0, fv, cfg_types=CFG_TYPES) for fv in full_vals]
    live = [(fv, o) for fv, o in zip(full_vals, outs0) if o.unsafe is None and not o.limit]
    n_unsafe0 = sum(1 for o in outs0 if o.unsafe is not None)
    if not live:
        raise Skip("original-unsafe-or-too-long")
    stores = any(did_store(o, fv, ir0) for fv, o in live)
    sctx = sched.SchedCtx(env, case["prog"])
    p = p0
    accepted = []
    changed = False
    classes = []
    for k, step in enumerate(case["steps"]):
        ex = excluded_step(prop, step, p)
        if ex:
            classes.append("excluded:" + ex)
            continue
        q, outcome, desc = sched.apply_step(p, step, sctx)
        if CTX is not None and outcome != "noop":
            CTX.op(step[0], outcome)
        if outcome != "accepted":
            continue
        sp, sq = safe_str(p), safe_str(q)
        if sp != sq:
            changed = True
        irq = q.INTERNAL_proc()
        is_eqv, keys = get_strictest_eqv_proc(ir0, irq)
        allowed = cfg_key_names(keys)
        if not is_eqv:
            raise Violation(
                {"op": step[0], "kind": "not-reported-equivalent"},
                f"step {k} {desc}: result not reported equivalent to the original by get_strictest_eqv_proc",
            )
        for fv, o0 in live:
            o1 = run_outcome(irq, fv, cfg_types=CFG_TYPES)
            bad = compare_outcomes(o0, o1, allowed)
            if bad and bad[0].startswith("unsafe:") and not unsafe_is_violation:
                # the derived procedure trips a safety monitor: that is C04's verdict
                classes.append("derived-unsafe(C04)")
                bad = None
            if bad and unsafe_is_violation and not bad[0].startswith("unsafe:"):
                # C04 only judges safety / initialisation; value changes are C01's
                if "derived POISON" in bad[1]:
                    bad = ("uninitialised-read", bad[1])
                else:
                    classes.append("value-mismatch(C01)")
                    bad = None
            if bad:
                kind, det = bad
                sig = {"op": step[0], "kind": kind, "poison": str("derived POISON" in det), "stmt": _stmt_class(det), "args": json.dumps({a: b for a, b in desc.items() if a not in ("op", "at", "loop", "err")}, sort_keys=True, default=str)}
                if kind == "unsafe:unbound-variable":
                    # does one statement OBJECT occur twice in the input of this step?  (copies made by
                    # specialize / cut_loop share binder-free statements; see the known finding on
                    # expression strings resolved in the scope of the first occurrence)
                    ids = [id(x.node) for x in sched.collect(p.INTERNAL_proc())[0]]
                    sig["shared_stmt"] = str(len(ids) != len(set(ids)))
                raise Violation(
                    sig,
                    f"step {k}: {json.dumps(desc, default=str)}\ninput {json.dumps(fv)}\n{det}\n--- original:\n{p0}\n--- before this step:\n{sp}\n--- after this step:\n{sq}\naccepted so far: {json.dumps(accepted, default=str)}",
                )
        if after_step is not None:
            after_step(p, q, desc, k, live, env)
        accepted.append(desc)
        p = q
    ops = sorted({d["op"] for d in accepted})
    classes += [f"accepted={min(len(accepted), 4)}", "stores" if stores else "no-stores", f"vals={len(live)}"]
    if n_unsafe0:
        classes.append("some-inputs-unsafe-for-original")
    return {
        "nontrivial": changed and stores,
        "digest": {"p": render_program(case["prog"]), "s": accepted},
        "classes": classes + ["op:" + o for o in ops],
        "sample": {"program": render_program(case["prog"]), "accepted_steps": accepted, "n_valuations": len(live), "final": str(p)},
    }


def check_case(case):
    return check_schedule(case, PROP, NVALS)


NVALS = 6


def run(ctx):
    global CTX, NVALS
    CTX = ctx
    NVALS = 6 if ctx.tier == "quick" else 12
    names = sched.op_names()
    strat = case_strategy(4 if ctx.tier == "quick" else 8, names, max_stmts=10 if ctx.tier == "quick" else 14)
    from ..common import run_systematic
    from ..gen.templates import distinct_step_cases

    val = {"fill": 1, "layout": 2, "cfg": [3, 5, 1, 2, 4], "pick": 7}
    quick = ctx.tier == "quick"
    run_systematic(ctx, distinct_step_cases(ctx.shard, ctx.nshards, names, val, params=(0, 1, 2, 3) if quick else (0, 1, 2, 3, 5, 7)), guarded(ctx, check_case), keep_one_in=6 if quick else 1, label="template-single-steps", presharded=True)
    run_cases(ctx, strat, guarded(ctx, check_case), ctx.budget(1600, 12800))
