"""C18 - scheduling and compilation are deterministic."""
from __future__ import annotations

import json
import os
import subprocess
import sys

from hypothesis import strategies as st

from ..common import Violation, Skip, run_cases, guarded
from ..gen.programs import programs, render_program
from .. import sched
from .c01 import step_strategy

PROP = "C18"
CTX = None
ROOT = os.path.dirname(os.path.dirname(os.path.dirname(os.path.abspath(__file__))))


def run_child(sessions, hashseed, preroll, junk, reverse, boundary=None):
    env = dict(os.environ, PYTHONHASHSEED=str(hashseed))
    env["PYTHONPATH"] = ROOT + (os.pathsep + env["PYTHONPATH"] if env.get("PYTHONPATH") else "")
    req = {"sessions": sessions, "preroll": preroll, "junk": junk, "reverse": reverse, "boundary": boundary}
    p = subprocess.run([sys.executable, "-m", "exoverif.c18_child"], input=json.dumps(req), capture_output=True, text=True, env=env, cwd=ROOT, timeout=600)
    if p.returncode != 0:
        raise RuntimeError("C18 child failed: " + p.stderr[-1500:])
    return json.loads(p.stdout[p.stdout.index("[") :])


def check_case(case):
    sessions = case["sessions"]
    if not sessions:
        raise Skip("empty")
    v = case["variants"]
    base = run_child(sessions, 0, 0, 0, False)
    variants = [
        (f"PYTHONHASHSEED=1, preroll={v['preroll']} Syms, {v['junk']} unrelated procs first", run_child(sessions, 1, v["preroll"], v["junk"], False)),
        (
            f"PYTHONHASHSEED={v['seed']}, sessions processed in reverse order, each run 3x: as is, and with the symbol counter advanced so that a power of ten falls after 1/3 and 2/3 of the symbols the session creates",
            run_child(sessions, v["seed"], 3, 1, True, {"d": v["preroll"], "step": 37}),
        ),
    ]
    nontriv = []
    classes = []
    for sid, b in enumerate(base):
        if b["id"] == "joint":
            for name, res in variants:
                r = res[sid]
                if b["c"] != r["c"] or b["h"] != r["h"]:
                    which = "c" if b["c"] != r["c"] else "h"
                    raise Violation(
                        {"kind": f"joint-{which}-text-differs"},
                        f"joint compilation unit of the sessions' final procedures, variant [{name}] vs baseline [PYTHONHASHSEED=0]\n--- baseline .{which}:\n{_first_diff(b[which], r[which])}",
                    )
            if b["c"] is not None and not str(b["c"]).startswith("EXC:"):
                classes.append("joint-unit-compiled")
            continue
        if b["err"]:
            classes.append("frontend-reject")
            continue
        all_runs = [b] + [x for nm, res in variants for x in [res[sid]] + res[sid].get("alt", [])]
        # did z3 give up ('unknown') in any run of this session?  (see c18_child._watch_z3)
        z3u = {"z3_unknown": str(any(x.get("z3_unknown", 0) > 0 for x in all_runs))}
        for name, r in [(nm, x) for nm, res in variants for x in [res[sid]] + res[sid].get("alt", [])]:
            where = f"session {sid}, variant [{name}] vs baseline [PYTHONHASHSEED=0]\nprogram:\n{render_program(sessions[sid]['prog'])}\nsteps: {sessions[sid]['steps']}"
            if r["err"] != b["err"]:
                raise Violation(dict({"kind": "frontend-outcome-differs"}, **z3u), f"{where}: {b['err']} vs {r['err']}")
            for k, (sb, sr) in enumerate(zip(b["steps"], r["steps"])):
                if sb[0] != sr[0]:
                    raise Violation(dict({"kind": "step-outcome-differs", "op": sb[0].split(":")[0]}, **z3u), f"{where}\nstep {k}: outcome {sb[0]!r} vs {sr[0]!r}")
                if sb[1] != sr[1]:
                    raise Violation(dict({"kind": "printed-proc-differs", "op": sb[0]}, **z3u), f"{where}\nafter step {k} ({sb[0]}):\n--- baseline:\n{sb[1]}\n--- variant:\n{sr[1]}")
            if b["c"] != r["c"]:
                raise Violation(dict({"kind": "c-text-differs"}, **z3u), f"{where}\n--- baseline .c:\n{(b['c'] or '')[-1500:]}\n--- variant .c:\n{(r['c'] or '')[-1500:]}")
            if b["h"] != r["h"]:
                raise Violation(dict({"kind": "h-text-differs"}, **z3u), f"{where}\n--- baseline .h:\n{(b['h'] or '')[-1200:]}\n--- variant .h:\n{(r['h'] or '')[-1200:]}")
        acc = [s[0] for s in b["steps"][1:] if ":" not in s[0]]
        compiled = b["c"] is not None and not str(b["c"]).startswith("EXC:")
        classes.append("compiled" if compiled else "compile-rejected")
        for a in acc:
            classes.append("op:" + a)
        if acc and compiled:
            nontriv.append({"p": render_program(sessions[sid]["prog"]), "s": acc})
    return {
        "nontrivial": False,
        "digest": None,
        "classes": classes,
        "sample": {"session_program": render_program(sessions[0]["prog"]), "steps": sessions[0]["steps"], "variants": [n for n, _ in variants]},
        "_nontriv": nontriv,
    }


def _first_diff(a, b):
    a, b = (a or "").splitlines(), (b or "").splitlines()
    for i, (x, y) in enumerate(zip(a, b)):
        if x != y:
            lo = max(0, i - 3)
            return "\n".join(a[lo : i + 6]) + "\n--- variant:\n" + "\n".join(b[lo : i + 6])
    return f"(lengths differ: {len(a)} vs {len(b)} lines)"


def directed_cases(ctx, batch=12):
    """template programs x every distinct call of the name-inventing / set-valued ops, each followed
    by inline_window + simplify (normalisation sorts terms by Sym), in batches of sessions"""
    from ..gen.templates import distinct_step_cases

    ops = ["inline", "inline_window", "divide_loop", "cut_loop", "unroll_loop", "unroll_buffer", "stage_mem", "bind_expr", "specialize", "fission", "lift_alloc", "extract_subproc", "remove_loop", "std.auto_stage_mem", "mult_loops", "shift_loop", "expand_dim", "simplify", "reorder_loops", "fuse", "lift_scope", "delete_buffer", "reuse_buffer", "sink_alloc"]
    tail = [["inline_window", 0, 0, 0], ["inline_window", 0, 0, 0], ["simplify", 0, 0, 0]]
    buf = []
    k = 0
    for c in distinct_step_cases(ctx.shard, ctx.nshards, ops, None, params=(0, 1), grid=(4, 3, 4), cap=10):
        k += 1
        if ctx.tier == "quick" and (k + ctx.seed) % 3 and c["steps"][0][0] not in ("inline", "unroll_loop"):
            continue  # (quick: a third of the sessions; the steps that duplicate binders are always kept)
        buf.append({"prog": c["prog"], "steps": c["steps"] + tail, "also_callees": True, "rev_procs": bool(k % 2)})
        if len(buf) == batch:
            yield {"sessions": buf, "variants": {"seed": 2 + (k * 37 + ctx.seed) % 4000, "preroll": 1 + (k * 53) % 400, "junk": k % 4}}
            buf = []
    if buf:
        yield {"sessions": buf, "variants": {"seed": 2 + (k * 37 + ctx.seed) % 4000, "preroll": 1 + (k * 53) % 400, "junk": k % 4}}


def case_strategy(names):
    sess = st.fixed_dictionaries(
        {
            "prog": programs(max_stmts=9),
            "steps": st.lists(step_strategy(names), min_size=0, max_size=4),
            "also_callees": st.booleans(),
            "rev_procs": st.booleans(),
        }
    )
    return st.fixed_dictionaries(
        {
            "sessions": st.lists(sess, min_size=8, max_size=8),
            "variants": st.fixed_dictionaries({"seed": st.integers(2, 5000), "preroll": st.integers(1, 400), "junk": st.integers(0, 4)}),
        }
    )


def run(ctx):
    global CTX
    CTX = ctx
    from ..common import digest

    names = sched.op_names(unsafe=True, weights={"unroll_buffer": 6, "lift_alloc": 6, "fission": 6, "stage_mem": 6, "extract_subproc": 5, "remove_loop": 5, "unroll_loop": 5, "specialize": 4})

    def chk(case):
        info = check_case(case)
        for d in info.pop("_nontriv", []):
            ctx.nontrivial.add(digest(d))
        if len(ctx.samples) < 2:
            ctx.samples.append(info["sample"])
        ctx.evaluations += len(case["sessions"]) - 1
        return info

    from ..common import run_systematic

    run_systematic(ctx, directed_cases(ctx), guarded(ctx, chk), keep_one_in=1, label="directed-template-sessions", presharded=True)
    run_cases(ctx, case_strategy(names), guarded(ctx, chk), ctx.budget(48, 384))
