"""Runner: ./check <ID> [--tier quick|thorough] [--replay FILE]

exit 0: property held on everything explored (known findings are printed, not failed)
exit 1: at least one `VIOLATION property=<id> replay=<path>` line
exit 2: harness error (never a violation)
"""
from __future__ import annotations

import argparse
import glob
import json
import os
import re
import shutil
import subprocess
import sys
import time
from collections import Counter

ROOT = os.path.dirname(os.path.dirname(os.path.abspath(__file__)))
PY = "/venv/bin/python" if os.path.exists("/venv/bin/python") else sys.executable

# wall-clock safety caps (seconds); hitting one only truncates (inconclusive, exit 0)
CAPS = {"quick": 420, "thorough": 2700}


def load_known(prop):
    p = os.path.join(ROOT, "known_findings.json")
    if not os.path.exists(p):
        return []
    return [f for f in json.load(open(p))["findings"] if f["property"] == prop]


def matches(matcher: dict, sig: dict) -> bool:
    if not matcher:
        return False
    for k, want in matcher.items():
        have = sig.get(k)
        if have is None:
            return False
        if isinstance(want, dict) and "re" in want:
            if not re.search(want["re"], have):
                return False
        elif str(want) != have:
            return False
    return True


def child_env():
    env = dict(os.environ)
    env["PYTHONHASHSEED"] = "0"
    env["PYTHONPATH"] = ROOT + (os.pathsep + env["PYTHONPATH"] if env.get("PYTHONPATH") else "")
    env["PYTHONDONTWRITEBYTECODE"] = "1"
    env.pop("VERIF_TIER", None)
    return env


def spawn(prop, shard, nshards, seed, tier, out, extra=()):
    log = open(out + ".log", "w")
    return subprocess.Popen(
        [PY, "-m", "exoverif.worker", prop, str(shard), str(nshards), str(seed), tier, out, *extra],
        cwd=ROOT,
        env=child_env(),
        stdout=log,
        stderr=subprocess.STDOUT,
    )


def run_replays(prop, items, work, seed, tier):
    """items: [{'name','case'}] -> list of result dicts (fresh process)."""
    if not items:
        return []
    inp = os.path.join(work, "replay_in.json")
    out = os.path.join(work, "replay_out.json")
    json.dump(items, open(inp, "w"), default=str)
    p = spawn(prop, 0, 1, seed, tier, out, ("--replay", inp))
    try:
        p.wait(timeout=600)
    except subprocess.TimeoutExpired:
        p.kill()
        return None
    if p.returncode != 0 or not os.path.exists(out):
        sys.stderr.write(open(out + ".log").read()[-3000:])
        return None
    return json.load(open(out))["extra"]["replays"]


def write_replay(prop, case, sig, detail, seed, tier):
    from .common import digest

    d = os.path.join(ROOT, "replays", prop)
    os.makedirs(d, exist_ok=True)
    name = digest({"case": case, "sig": sig})
    path = os.path.join(d, name + ".json")
    json.dump(
        {"property": prop, "seed": seed, "tier": tier, "sig": sig, "detail": detail, "case": case},
        open(path, "w"),
        indent=1,
        default=str,
    )
    return os.path.relpath(path, ROOT)


def main(argv=None):
    ap = argparse.ArgumentParser()
    ap.add_argument("prop")
    ap.add_argument("--tier", default=os.environ.get("VERIF_TIER") or "quick")
    ap.add_argument("--replay")
    ap.add_argument("--shards", type=int, default=int(os.environ.get("VERIF_SHARDS", "0")) or None)
    a = ap.parse_args(argv)
    prop = a.prop.upper()
    tier = a.tier if a.tier in ("quick", "thorough") else "quick"
    try:
        seed = int(os.environ.get("VERIF_SEED", "1"))
    except ValueError:
        seed = 1
    t0 = time.time()
    work = os.path.join(ROOT, ".work", f"{prop}-{os.getpid()}")
    shutil.rmtree(work, ignore_errors=True)
    os.makedirs(work)
    try:
        return _main(prop, tier, seed, a, work, t0)
    finally:
        shutil.rmtree(work, ignore_errors=True)


def _main(prop, tier, seed, a, work, t0):
    known = load_known(prop)
    violations = []  # (path, why)
    lines = []

    # ---- single replay requested
    if a.replay:
        rec = json.load(open(a.replay))
        case = rec["case"] if isinstance(rec, dict) and "case" in rec else rec
        res = run_replays(prop, [{"name": a.replay, "case": case}], work, seed, tier)
        if res is None:
            print("HARNESS-ERROR replay worker failed")
            return 2
        r = res[0]
        if r["failed"]:
            kf = next((k for k in known if k["status"] == "known" and matches(k.get("matcher"), r["sig"])), None)
            if kf:
                print(f"KNOWN-FINDING: property={prop} {kf['what']}")
                return 0
            print(f"VIOLATION property={prop} replay={a.replay}")
            print("  " + (r["detail"] or "").replace("\n", "\n  "))
            return 1
        print(f"replay passed: {a.replay}")
        return 0

    # ---- replay tier: corpus + known findings
    items = []
    for f in sorted(glob.glob(os.path.join(ROOT, "corpus", prop, "*.json"))):
        rec = json.load(open(f))
        items.append({"name": os.path.relpath(f, ROOT), "case": rec["case"], "expect": rec.get("expect", "pass")})
    for k in known:
        if "case" in k:
            items.append({"name": "finding:" + k["id"], "case": k["case"], "expect": k["status"]})
    rep = run_replays(prop, [{"name": i["name"], "case": i["case"]} for i in items], work, seed, tier)
    if rep is None:
        print("HARNESS-ERROR replay worker failed")
        return 2
    known_seen = Counter()
    replay_summary = []
    for it, r in zip(items, rep):
        replay_summary.append({"name": it["name"], "failed": r["failed"], "sig": r["sig"]})
        if it["name"].startswith("finding:"):
            k = next(k for k in known if "finding:" + k["id"] == it["name"])
            if k["status"] == "known":
                if r["failed"] and matches(k.get("matcher"), r["sig"]):
                    known_seen[k["id"]] += 1
                elif r["failed"]:
                    p = write_replay(prop, it["case"], r["sig"], r["detail"], seed, tier)
                    violations.append((p, f"replay of {k['id']} fails differently: {r['sig']}"))
                else:
                    lines.append(f"NOTE: known finding {k['id']} no longer reproduces")
            else:  # fixed:<sha> -- must pass
                if r["failed"]:
                    p = write_replay(prop, it["case"], r["sig"], r["detail"], seed, tier)
                    violations.append((p, f"fixed finding {k['id']} is back: {r['detail']}"))
        else:
            if r["failed"]:
                kf = next((k for k in known if k["status"] == "known" and matches(k.get("matcher"), r["sig"])), None)
                if kf:
                    known_seen[kf["id"]] += 1
                else:
                    p = write_replay(prop, it["case"], r["sig"], r["detail"], seed, tier)
                    violations.append((p, f"corpus case {it['name']} fails: {r['detail']}"))

    # ---- campaign
    nsh = a.shards or min(16, os.cpu_count() or 4)
    procs = []
    for s in range(nsh):
        out = os.path.join(work, f"shard{s}.json")
        procs.append((s, out, spawn(prop, s, nsh, seed, tier, out)))
    cap = CAPS[tier]
    if os.environ.get("VERIF_CAP"):
        cap = int(os.environ["VERIF_CAP"])
    truncated = False
    deadline = t0 + cap
    for s, out, p in procs:
        try:
            p.wait(timeout=max(1, deadline - time.time()))
        except subprocess.TimeoutExpired:
            truncated = True
            p.kill()
            p.wait()
    crashed = []
    agg = {
        "evaluations": 0,
        "nontrivial": set(),
        "classes": Counter(),
        "skipped": Counter(),
        "excluded": Counter(),
        "ops": {},
        "samples": [],
        "failures": [],
        "fail_buckets": Counter(),
        "extra": {},
        "harness_errors": {},
    }
    for s, out, p in procs:
        if not os.path.exists(out):
            crashed.append((s, open(out + ".log").read()[-2000:]))
            continue
        d = json.load(open(out))
        if not d.get("done") and p.returncode not in (None, -9):
            crashed.append((s, open(out + ".log").read()[-2000:]))
        agg["evaluations"] += d["evaluations"]
        agg["nontrivial"].update(d["nontrivial"])
        agg["classes"].update(d["classes"])
        agg["skipped"].update(d["skipped"])
        agg["excluded"].update(d["excluded"])
        for k, v in d["ops"].items():
            t = agg["ops"].setdefault(k, {})
            for kk, vv in v.items():
                t[kk] = t.get(kk, 0) + vv
        if len(agg["samples"]) < 6:
            agg["samples"].extend(d["samples"][: 2 if s else 3])
        agg["failures"].extend(d["failures"])
        agg["fail_buckets"].update(d["fail_buckets"])
        for k, v in d["extra"].items():
            if k == "harness_errors":
                for kk, vv in v.items():
                    t = agg["harness_errors"].setdefault(kk, {"n": 0, "tb": vv["tb"], "case": vv.get("case")})
                    t["n"] += vv["n"]
            elif isinstance(v, (int, float)) and not isinstance(v, bool):
                agg["extra"][k] = agg["extra"].get(k, 0) + v
            elif isinstance(v, dict) and all(isinstance(x, (int, float)) for x in v.values()):
                t = agg["extra"].setdefault(k, {})
                for kk, vv in v.items():
                    t[kk] = t.get(kk, 0) + vv
            else:
                agg["extra"].setdefault(k, v)

    # ---- classify campaign failures
    by_bucket = {}
    for f in sorted(agg["failures"], key=lambda f: f["size"]):
        by_bucket.setdefault(f["key"], f)
    for key, f in by_bucket.items():
        kf = next((k for k in known if k["status"] == "known" and matches(k.get("matcher"), f["sig"])), None)
        if kf:
            known_seen[kf["id"]] += agg["fail_buckets"][key]
            continue
        if f.get("reproduced") is False:
            # a failure that does not reproduce from its own saved case is a harness
            # flake, not evidence; report as harness error
            agg["harness_errors"].setdefault("unreproducible:" + key, {"n": 0, "tb": f["detail"]})["n"] += 1
            continue
        p = write_replay(prop, f["case"], f["sig"], f["detail"], seed, tier)
        violations.append((p, f["detail"]))

    for k in known:
        if k["status"] == "known" and (known_seen[k["id"]] or "case" not in k):
            lines.append(f"KNOWN-FINDING: property={prop} {k['what']}")

    n_he = sum(v["n"] for v in agg["harness_errors"].values())
    wall = round(time.time() - t0, 2)

    # ---- evidence
    import importlib

    meta = {}
    try:
        sys.path.insert(0, ROOT)
        m = importlib.import_module(f"exoverif.props.{prop.lower()}_meta")
        meta = {"rule": m.RULE, "assumptions": m.ASSUMPTIONS, "bounds": getattr(m, "BOUNDS", {})}
    except Exception as e:  # noqa
        meta = {"rule": "see DESIGN.md", "assumptions": [], "bounds": {}}
    ev = {
        "property_id": prop,
        "tier": tier,
        "seed": seed,
        "level": "exploration",
        "coverage": {
            "evaluations": agg["evaluations"],
            "distinct_nontrivial": len(agg["nontrivial"]),
            "rule": meta["rule"],
            "samples": agg["samples"][:6] or ["(no non-trivial sample recorded)"],
            "classes": dict(sorted(agg["classes"].items())),
            "skipped": dict(agg["skipped"]),
            "ops": agg["ops"],
            "excluded_known": dict(agg["excluded"]),
            "known_findings_hit": dict(known_seen),
            "bounds": meta["bounds"],
            "replayed": replay_summary,
            "truncated": truncated,
            "shards": nsh,
            "harness_errors": {k: v["n"] for k, v in agg["harness_errors"].items()},
            "extra": agg["extra"],
        },
        "assumptions": meta["assumptions"],
        "wall_s": wall,
        "violations": len(violations),
    }
    # (mutant / sensitivity runs set VERIF_EVIDENCE_DIR so that the committed evidence,
    # which must describe the unchanged tree, is not overwritten)
    evdir = os.environ.get("VERIF_EVIDENCE_DIR") or os.path.join(ROOT, "evidence")
    os.makedirs(evdir, exist_ok=True)
    json.dump(ev, open(os.path.join(evdir, f"{prop}.json"), "w"), indent=1, default=str)

    for l in lines:
        print(l)
    print(
        f"{prop} tier={tier} seed={seed} evaluations={agg['evaluations']} "
        f"distinct_nontrivial={len(agg['nontrivial'])} violations={len(violations)} "
        f"harness_errors={n_he} truncated={truncated} wall={wall}s"
    )
    if crashed:
        for s, log in crashed:
            print(f"HARNESS-ERROR shard {s} crashed:\n{log}")
        return 2
    for k, v in agg["harness_errors"].items():
        print(f"HARNESS-NOTE {k} x{v['n']}\n{v['tb']}\ncase={json.dumps(v.get('case'), default=str)[:3000]}")
    if violations:
        for p, why in violations:
            print(f"VIOLATION property={prop} replay={p}")
            print("  " + str(why).replace("\n", "\n  ")[:1500])
        return 1
    if agg["harness_errors"]:
        if n_he > max(3, 0.05 * max(1, agg["evaluations"])):
            return 2
    if agg["evaluations"] == 0:
        print("HARNESS-ERROR no cases evaluated")
        return 2
    return 0


if __name__ == "__main__":
    sys.exit(main())
