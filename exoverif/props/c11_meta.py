RULE = (
    "Hypothesis draws a history (<=30 steps quick, <=45 thorough) of operations on the real "
    "equivalence-tracking API: new origin (fresh Procedure / partial_eval / add_assertion / transpose), "
    "derive(q,K) through Procedure(ir,_provenance_eq_Procedure=q,_mod_config=K) with K a subset of a "
    "5-key universe whose keys are created lazily, real rename / write_config / delete_config steps, "
    "unsafe_assert_eq, call_eqv. After every step ALL pairs are queried (get_strictest_eqv_proc, "
    "check_eqv_proc with drawn S, is_eq) and compared, in both directions, with reflexive-symmetric-"
    "transitive closures recomputed from the edge list by naive graph search, per key. Additionally all "
    "histories with <=4 procs, <=2 keys, <=4 edges are enumerated exhaustively (itertools.product). "
    "Non-trivial: some key is first mentioned after >=2 edges exist AND some queried pair is connected "
    "only through >=2 edges with different modulo-sets. Distinct = digest of the resolved history."
)
ASSUMPTIONS = [
    "process-global union-find state is reset at the top of each case (1/8 of cases keep it on purpose)",
    "keys are Sym objects like the real config-field keys",
    "model: R_k = RST closure of edges whose modulo-set does not contain k; R_all = closure of all edges",
]
BOUNDS = {"max_steps": {"quick": 30, "thorough": 45}, "max_procs": 12, "keys": 5}
