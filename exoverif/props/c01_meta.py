RULE = (
    "Hypothesis draws (program from the grammar-based generator G, schedule of <=4 (quick) / <=8 (thorough) steps "
    "[op,k1,k2,k3] resolved against the live procedure over the whole op catalogue incl. stdlib compositions, "
    "valuation parameters). For every accepted step the derived procedure is run by the independent reference "
    "interpreter (exact rationals, poison for uninitialised memory) on every selected admissible control valuation "
    "(sizes 1..6, index args -4..5, bools; <=6 quick / <=12 thorough per case) x strided window layouts x initial "
    "config state, and compared with the ORIGINAL procedure: all argument backing stores (incl. padding) and all "
    "config fields not in get_strictest_eqv_proc's reported set must be equal under poison refinement. "
    "Non-trivial: >=1 accepted step whose printed result differs from its input and the original stores something "
    "on some valuation. Distinct = digest of (program text, resolved accepted steps)."
)
ASSUMPTIONS = [
    "reference interpreter implements the documented LoopIR semantics (cross-validated against gcc in C02)",
    "every numeric argument has its own backing store (Exo forbids aliased arguments)",
    "unsafe escape hatches (unsafe_disable_check(s), add_unsafe_guard, unsafe_assert_eq) are never drawn",
    "inputs on which the original procedure trips a safety monitor are skipped (C03 material)",
]
BOUNDS = {"max_steps": {"quick": 4, "thorough": 8}, "sizes": "1..6", "index_args": "-4..5", "program_stmts": "<=12"}
