RULE = (
    "Same (program, schedule, valuations) domain as C01 with weights shifted to storage-moving ops "
    "(expand/resize/divide/mult/rearrange_dim, stage_mem, lift/sink/autolift_alloc, reuse/delete_buffer, fission, "
    "specialize, unroll_loop/buffer, inline, extract_subproc, bind_expr). After EVERY accepted step: (1) an independent "
    "structural validator V must accept the result (every Sym use in the scope of exactly one binder on its path, rank = "
    "index count, type annotations consistent, call arity/kinds, non-empty bodies, printable); (2) the reference interpreter "
    "with all monitors (buffer/window bounds, callee assertions, call shapes, aliasing, size>=1, hi>=lo, unbound variable) must "
    "raise no event on any admissible input of the ORIGINAL procedure, and no argument element the original leaves defined may "
    "be poison (uninitialised); (3) c_code_str() must succeed or raise a documented backend rejection. "
    "Non-trivial: accepted step that changed the set/shape/position of binders (Alloc, WindowStmt, For iterators, callee). "
    "Distinct = digest of (program text, accepted steps)."
)
ASSUMPTIONS = [
    "validator V and interpreter monitors implement the clauses of the statement of C03/C04 and nothing stronger",
    "documented backend rejections: TypeError / MemGenError / ConfigError raised by precision, memory, window, parallel analysis",
]
BOUNDS = {"max_steps": {"quick": 4, "thorough": 8}, "sizes": "1..6", "index_args": "-4..5"}
