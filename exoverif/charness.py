"""C harness H: emit C with the tree under test, generate a driver from the Exo signature
(documented ABI), build with gcc + ASan/UBSan and a counting allocator, run, parse."""
from __future__ import annotations

import os
import re
import shutil
import subprocess
import tempfile

from exo.core.LoopIR import LoopIR, T

from .inputs import arg_kinds, build_args
from .interp import MachineDomain, View, POISON

ROOT = os.path.dirname(os.path.dirname(os.path.abspath(__file__)))

CTYPE = {"F16": "_Float16", "F32": "float", "F64": "double", "INT8": "int8_t", "UINT8": "uint8_t", "UINT16": "uint16_t", "INT32": "int32_t", "Num": "float"}

SAN_FLAGS = [
    "-std=c11", "-O1", "-g", "-ffp-contract=off", "-fsanitize=address,undefined", "-fno-sanitize-recover=all",
    "-fno-omit-frame-pointer", "-Werror=incompatible-pointer-types", "-Werror=discarded-qualifiers",
    "-Werror=implicit-function-declaration", "-Werror=int-conversion", "-mavx2", "-mfma", "-mavx512f", "-Wno-unused",
]

ALLOC_H = r"""
#include <stdlib.h>
#include <stdio.h>
#include <stdint.h>
static long verif_live = 0; static long verif_allocs = 0; static long verif_badfree = 0;
#define VERIF_MAXP 4096
static void *verif_ptrs[VERIF_MAXP]; static int verif_np = 0;
static int verif_overflow = 0;
static void *verif_malloc(size_t n) { void *p = malloc(n ? n : 1); verif_live++; verif_allocs++;
  if (verif_np < VERIF_MAXP) verif_ptrs[verif_np++] = p; else verif_overflow = 1; return p; }
static void verif_free(void *p) { int found = 0;
  for (int i = 0; i < verif_np; i++) if (verif_ptrs[i] == p) { verif_ptrs[i] = verif_ptrs[--verif_np]; found = 1; break; }
  if (found || verif_overflow) verif_live--; else verif_badfree++;
  free(p); }
#define malloc(n) verif_malloc(n)
#define free(p) verif_free(p)
"""


MDRAM_STUB_H = r"""
#ifndef VERIF_CUSTOM_MALLOC_STUB
#define VERIF_CUSTOM_MALLOC_STUB
#define malloc_dram(n) verif_malloc(n)
#define free_dram(p) verif_free(p)
#endif
"""


def _exo_libs():
    import exo

    return os.path.join(os.path.dirname(exo.__file__), "libs")


class CompileRejected(Exception):
    """exo refused to compile (documented backend rejection)"""


def emit_c(procs, name="gen"):
    """-> (c_text, h_text); raises CompileRejected for documented rejections, anything else propagates"""
    from exo.API import compile_procs_to_strings
    from exo.core.memory import MemGenError
    from exo.core.configs import ConfigError

    try:
        return compile_procs_to_strings(list(procs), f"{name}.h")
    except (TypeError, MemGenError, ConfigError, NotImplementedError) as e:
        raise CompileRejected(f"{type(e).__name__}: {e}")


def proto_params(h_text, fname):
    """parameter type strings of `void fname(...)` in the emitted header"""
    m = re.search(r"\bvoid\s+" + re.escape(fname) + r"\s*\(([^;]*?)\)\s*;", h_text, re.S)
    if not m:
        return None
    parts = [p.strip() for p in m.group(1).split(",")]
    out = []
    for p in parts:
        mm = re.match(r"(.*?)(\w+)$", p)
        out.append((mm.group(1).strip(), mm.group(2)))
    return out


def _cval(v, ctype):
    if v is POISON:
        v = 0
    if ctype in ("float", "double", "_Float16"):
        return repr(float(v)) + ("f" if ctype == "float" else "")
    return str(int(v))


def make_driver(ir, h_text, valuations, cfg_decl, hname="gen"):
    """C text of a driver running `ir` on each valuation.  valuations: list of fv dicts.
    Returns (driver_text, metas) where metas[k] = {name: (n_elements, ctype)} in print order."""
    dom = MachineDomain()
    fname = str(ir.name)
    params = proto_params(h_text, fname)
    if params is None:
        raise RuntimeError(f"prototype of {fname} not found in header")
    kinds = arg_kinds(ir)
    if len(params) != len(kinds) + 1:
        raise RuntimeError(f"prototype has {len(params)} params, signature has {len(kinds)}+ctxt")
    has_ctx = "Context" in params[0][0]
    L = [f'#include "{hname}.h"', "#include <stdio.h>", "#include <string.h>", "int main(void) {"]
    metas = []
    for k, fv in enumerate(valuations):
        args, backs = build_args(ir, fv, dom)
        L.append(f"  {{ /* valuation {k}: {fv.get('ctrl')} */")
        L.append("  verif_live = 0; verif_allocs = 0; verif_np = 0; verif_badfree = 0;")
        if has_ctx:
            L.append(f"  {params[0][0].replace('*', '').strip()} ctxt_v; memset(&ctxt_v, 0, sizeof(ctxt_v));")
            for (cn, fld), (val, cty) in cfg_decl(fv).items():
                L.append(f"  ctxt_v.{cn}.{fld} = {_cval(val, cty) if cty != 'bool' else ('true' if val else 'false')};")
            call = ["&ctxt_v"]
        else:
            call = ["NULL"]
        meta = {}
        for (ptype, pname), (nm, kind, t) in zip(params[1:], kinds):
            if kind in ("size", "index", "stride"):
                call.append(str(int(fv["ctrl"][nm])))
            elif kind == "bool":
                call.append("true" if fv["ctrl"][nm] else "false")
            else:
                bt = t.basetype()
                cty = CTYPE[type(bt).__name__]
                buf = backs[nm]
                view = args[nm]
                init = ", ".join(_cval(v, cty) for v in buf.data)
                L.append(f"  {cty} {nm}_back[{len(buf.data)}] = {{ {init} }};")
                meta[nm] = (len(buf.data), cty)
                if "struct" in ptype:
                    st = ", ".join(str(s) for s in view.strides) or "0"
                    L.append(f"  {ptype} {nm}_w = {{ &{nm}_back[{view.off}], {{ {st} }} }};")
                    call.append(f"{nm}_w")
                else:
                    call.append(f"&{nm}_back[{view.off}]")
        L.append(f"  {fname}({', '.join(call)});")
        L.append(f'  printf("V {k}\\n");')
        for nm, (n, cty) in meta.items():
            L.append(f'  printf("B {nm}"); for (int q = 0; q < {n}; q++) printf(" %.17g", (double){nm}_back[q]); printf("\\n");')
        if has_ctx:
            for (cn, fld), (val, cty) in cfg_decl(fv).items():
                L.append(f'  printf("C {cn}.{fld} %.17g\\n", (double)ctxt_v.{cn}.{fld});')
        L.append('  printf("L %ld %ld\\n", verif_live, verif_badfree);')
        L.append("  }")
        metas.append(meta)
    L.append("  return 0; }")
    return "\n".join(L) + "\n", metas


class RunResult:
    def __init__(self):
        self.compile_ok = False
        self.compile_err = ""
        self.exit = None
        self.stdout = ""
        self.stderr = ""
        self.timeout = False
        self.cmd = ""


def build_and_run(c_text, h_text, driver, name="gen", extra_flags=(), cc="gcc", timeout=20, run=True, workroot=None):
    wd = tempfile.mkdtemp(prefix="c-", dir=workroot or os.path.join(ROOT, ".work"))
    r = RunResult()
    try:
        open(os.path.join(wd, f"{name}.c"), "w").write(c_text)
        open(os.path.join(wd, f"{name}.h"), "w").write(h_text)
        open(os.path.join(wd, "verif_alloc.h"), "w").write(ALLOC_H)
        open(os.path.join(wd, "driver.c"), "w").write(driver)
        libs = _exo_libs()
        # MDRAM: the memory class's alloc/free text is under test, not the library allocator
        # (custom_malloc.c needs an application-side init_mem() and a fixed heap): a stub header
        # in the build directory routes malloc_dram/free_dram to the counting allocator.
        open(os.path.join(wd, "custom_malloc.h"), "w").write(MDRAM_STUB_H)
        extra_src = []
        cmd = [cc, *SAN_FLAGS, *extra_flags, "-I", libs, "-include", "verif_alloc.h", f"{name}.c", "driver.c", *extra_src, "-lm", "-o", "t.exe"]
        r.cmd = " ".join(cmd)
        cp = subprocess.run(cmd, cwd=wd, capture_output=True, text=True, timeout=120)
        r.compile_ok = cp.returncode == 0
        r.compile_err = cp.stderr[-3000:]
        if not r.compile_ok or not run:
            return r
        env = dict(os.environ, ASAN_OPTIONS="detect_leaks=1:abort_on_error=0:exitcode=86:allocator_may_return_null=1", UBSAN_OPTIONS="print_stacktrace=0:halt_on_error=1")
        try:
            rp = subprocess.run(["./t.exe"], cwd=wd, capture_output=True, text=True, timeout=timeout, env=env)
            r.exit, r.stdout, r.stderr = rp.returncode, rp.stdout, rp.stderr[-4000:]
        except subprocess.TimeoutExpired:
            r.timeout = True
        return r
    finally:
        shutil.rmtree(wd, ignore_errors=True)


def syntax_check(c_text, h_text, name="gen", cc="gcc", workroot=None):
    """compile .c and the header on its own with -fsyntax-only"""
    wd = tempfile.mkdtemp(prefix="s-", dir=workroot or os.path.join(ROOT, ".work"))
    try:
        open(os.path.join(wd, f"{name}.c"), "w").write(c_text)
        open(os.path.join(wd, f"{name}.h"), "w").write(h_text)
        open(os.path.join(wd, "custom_malloc.h"), "w").write("#include <stdlib.h>\n#define malloc_dram(n) malloc(n)\n#define free_dram(p) free(p)\n")
        open(os.path.join(wd, "honly.c"), "w").write(f'#include "{name}.h"\n#include "{name}.h"\nint verif_dummy;\n')
        flags = ["-std=c11", "-fsyntax-only", "-Wall", "-Wno-unused", "-Werror=incompatible-pointer-types", "-Werror=discarded-qualifiers",
                 "-Werror=implicit-function-declaration", "-Werror=int-conversion", "-mavx2", "-mfma", "-mavx512f"]
        flags += ["-I", _exo_libs()]
        cp = subprocess.run([cc, *flags, f"{name}.c", "honly.c"], cwd=wd, capture_output=True, text=True, timeout=120)
        return cp.returncode == 0, cp.stderr[-3000:], " ".join([cc, *flags])
    finally:
        shutil.rmtree(wd, ignore_errors=True)


def parse_output(stdout):
    """-> list of {bufs: {name: [float]}, cfg: {'C.f': float}, live: int, badfree: int}"""
    out = []
    cur = None
    for line in stdout.splitlines():
        p = line.split()
        if not p:
            continue
        if p[0] == "V":
            cur = {"bufs": {}, "cfg": {}, "live": None, "badfree": 0}
            out.append(cur)
        elif cur is None:
            continue
        elif p[0] == "B":
            cur["bufs"][p[1]] = [float(x) for x in p[2:]]
        elif p[0] == "C":
            cur["cfg"][p[1]] = float(p[2])
        elif p[0] == "L":
            cur["live"], cur["badfree"] = int(p[1]), int(p[2])
    return out


def sanitizer_kind(stderr):
    m = re.search(r"ERROR: AddressSanitizer: ([\w-]+)", stderr)
    if m:
        return "asan:" + m.group(1)
    m = re.search(r"ERROR: LeakSanitizer", stderr)
    if m:
        return "lsan:leak"
    m = re.search(r"runtime error: ([^\n]{0,60})", stderr)
    if m:
        msg = m.group(1)
        msg = re.sub(r"-?\d+", "N", msg)
        return "ubsan:" + msg.strip()[:50]
    return None


TOL = {"float": 1e-5, "double": 1e-12, "_Float16": 4e-3}


def close(a, b, cty):
    if a == b:
        return True
    if a != a and b != b:
        return True
    t = TOL.get(cty)
    if t is None:
        return False
    return abs(a - b) <= t * max(1.0, abs(a), abs(b))
