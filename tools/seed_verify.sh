#!/bin/sh
# tools/seed_verify.sh <out-dir with patch.diff/demo.py/meta.json> <scratch worktree>
# Confirms: patch applies, demo passes unchanged / fails patched, full suite keeps stable_pass.
out="$1"; wt="$2"; name=$(basename "$out")
cd "$wt" || exit 2
git checkout -q -- . ; git clean -fdq
echo "== $name: demo on unchanged tree"
PYTHONPATH="$wt/src" /venv/bin/python "$out/demo.py" > /tmp/sv_${name}_demo0.txt 2>&1; d0=$?
git apply "$out/patch.diff" || { echo "PATCH DOES NOT APPLY"; exit 1; }
echo "== $name: demo on patched tree"
PYTHONPATH="$wt/src" /venv/bin/python "$out/demo.py" > /tmp/sv_${name}_demo1.txt 2>&1; d1=$?
echo "== $name: test suite on patched tree"
PYTHONPATH="$wt/src" /venv/bin/python -m pytest -q -p no:cacheprovider --timeout=900 --continue-on-collection-errors -n 6 tests --junitxml=/tmp/sv_${name}_junit.xml > /tmp/sv_${name}_pytest.txt 2>&1
/verif/tools/check_baseline.py /tmp/sv_${name}_junit.xml > /tmp/sv_${name}_base.txt 2>&1; b=$?
git checkout -q -- . ; git clean -fdq
echo "RESULT $name demo_unchanged_exit=$d0 demo_patched_exit=$d1 baseline_ok=$([ $b = 0 ] && echo yes || echo no) $(head -1 /tmp/sv_${name}_base.txt)"
