"""Shared plumbing: cases are JSON values, a property module maps a case to an
outcome (`check_case`), failures are recorded (not raised) so a campaign keeps going
behind a shallow defect, and are minimised afterwards by structural delta debugging
on the JSON case."""
from __future__ import annotations

import hashlib
import json
import os
import time
import traceback
from collections import Counter

from hypothesis import HealthCheck, Phase, given, seed, settings

EXO_REJECTIONS = None  # filled lazily (needs exo import)


def rejection_types():
    """Exception types that mean 'the operation refused' (documented error paths)."""
    global EXO_REJECTIONS
    if EXO_REJECTIONS is None:
        from exo.rewrite.LoopIR_scheduling import SchedulingError
        from exo.frontend.parse_fragment import ParseFragmentError
        from exo.core.internal_cursors import InvalidCursorError
        from exo.rewrite.LoopIR_unification import UnificationError
        from exo.frontend.pyparser import ParseError
        from exo.rewrite.new_eff import SchedulingError as SE2

        EXO_REJECTIONS = (
            SchedulingError,
            SE2,
            ParseFragmentError,
            InvalidCursorError,
            UnificationError,
            ParseError,
            TypeError,
            ValueError,
            NotImplementedError,
        )
    return EXO_REJECTIONS


class Violation(Exception):
    """The property under test failed on `case`.

    sig: small dict of strings identifying the failure class (matched against
         known_findings.json; keep it specific: op name, kind, ...).
    """

    def __init__(self, sig: dict, detail: str):
        super().__init__(detail)
        self.sig = {k: str(v) for k, v in sig.items()}
        self.detail = detail


class Skip(Exception):
    """Case is outside the property's domain (counted, never a violation)."""


def digest(obj) -> str:
    return hashlib.sha256(
        json.dumps(obj, sort_keys=True, default=str).encode()
    ).hexdigest()[:16]


def derive_seed(seed_, prop, shard) -> int:
    h = hashlib.sha256(f"{seed_}:{prop}:{shard}".encode()).hexdigest()
    return int(h[:8], 16)


class Ctx:
    def __init__(self, prop, shard, nshards, seed_, tier, outfile):
        self.prop, self.shard, self.nshards = prop, shard, nshards
        self.seed, self.tier, self.outfile = seed_, tier, outfile
        self.t0 = time.time()
        self.evaluations = 0
        self.skipped = Counter()
        self.nontrivial = set()
        self.classes = Counter()
        self.ops = {}
        self.excluded = Counter()
        self.samples = []
        self.failures = []  # dicts: sig, detail, case
        self._fail_buckets = Counter()
        self.extra = {}
        self._last_flush = 0.0
        self.done = False

    # ---- budget helpers
    def budget(self, quick, thorough):
        n = quick if self.tier == "quick" else thorough
        return max(1, n // self.nshards + (1 if self.shard < n % self.nshards else 0))

    def hseed(self, salt=""):
        return derive_seed(self.seed, self.prop + salt, self.shard)

    # ---- recording
    def record(self, info: dict | None, case=None):
        """info: {nontrivial: bool, digest: str|obj, classes: [..], sample: obj}"""
        self.evaluations += 1
        if info:
            for c in info.get("classes", ()):
                self.classes[c] += 1
            if info.get("nontrivial"):
                d = info.get("digest")
                d = d if isinstance(d, str) else digest(d if d is not None else case)
                if d not in self.nontrivial:
                    self.nontrivial.add(d)
                    if len(self.samples) < 4 and info.get("sample") is not None:
                        self.samples.append(info["sample"])
        self.flush(False)

    def op(self, name, outcome):
        d = self.ops.setdefault(name, {"accepted": 0, "rejected": 0, "internal": 0})
        d[outcome] = d.get(outcome, 0) + 1

    def fail(self, v: Violation, case):
        key = json.dumps(v.sig, sort_keys=True)
        self._fail_buckets[key] += 1
        # keep at most 3 cases per bucket, prefer small ones
        same = [f for f in self.failures if f["key"] == key]
        size = len(json.dumps(case, default=str))
        if len(same) < 3:
            self.failures.append(
                {"key": key, "sig": v.sig, "detail": v.detail, "case": case, "size": size}
            )
        else:
            big = max(same, key=lambda f: f["size"])
            if size < big["size"]:
                big.update(detail=v.detail, case=case, size=size)
        self.flush(True)

    def flush(self, force=True):
        now = time.time()
        if not force and now - self._last_flush < 4.0:
            return
        self._last_flush = now
        out = {
            "shard": self.shard,
            "done": self.done,
            "evaluations": self.evaluations,
            "skipped": dict(self.skipped),
            "nontrivial": sorted(self.nontrivial),
            "classes": dict(self.classes),
            "ops": self.ops,
            "excluded": dict(self.excluded),
            "samples": self.samples,
            "failures": self.failures,
            "fail_buckets": dict(self._fail_buckets),
            "extra": self.extra,
            "wall_s": round(now - self.t0, 2),
        }
        tmp = self.outfile + ".tmp"
        with open(tmp, "w") as f:
            json.dump(out, f, default=str)
        os.replace(tmp, self.outfile)


def run_cases(ctx: Ctx, strategy, check_case, max_examples, salt=""):
    """Drive `check_case(case)->info` over `strategy` (cases must be JSON-able).
    Violations are recorded and the search continues."""

    @seed(ctx.hseed(salt))
    @settings(
        max_examples=max_examples,
        database=None,
        deadline=None,
        derandomize=False,
        phases=[Phase.generate],
        suppress_health_check=list(HealthCheck),
        report_multiple_bugs=False,
    )
    @given(strategy)
    def t(case):
        try:
            info = check_case(case)
        except Skip as s:
            ctx.skipped[str(s) or "skip"] += 1
            ctx.evaluations += 1
            return
        except Violation as v:
            ctx.evaluations += 1
            ctx.fail(v, case)
            return
        ctx.record(info, case)

    t()


# --------------------------------------------------------------------------- #
# structural delta debugging over JSON cases


def _candidates(x):
    """Yield (description, smaller_value) for a JSON value."""
    if isinstance(x, list):
        n = len(x)
        if n:
            # drop halves, then single elements
            if n > 3:
                yield x[: n // 2]
                yield x[n // 2 :]
            for i in range(n):
                yield x[:i] + x[i + 1 :]
        for i, e in enumerate(x):
            for c in _candidates(e):
                yield x[:i] + [c] + x[i + 1 :]
    elif isinstance(x, dict):
        for k in x:
            for c in _candidates(x[k]):
                y = dict(x)
                y[k] = c
                yield y
    elif isinstance(x, bool):
        if x:
            yield False
    elif isinstance(x, int):
        if x != 0:
            yield 0
            if abs(x) > 1:
                yield x // 2 if x > 0 else -((-x) // 2)
                yield x - 1 if x > 0 else x + 1
    elif isinstance(x, str):
        pass


def shrink_case(case, fails_same, time_budget=30.0):
    """Greedy ddmin: repeatedly replace case by the first smaller candidate that still
    fails with the same signature. `fails_same(case)->bool` must be total."""
    t_end = time.time() + time_budget
    improved = True
    steps = 0
    while improved and time.time() < t_end:
        improved = False
        for cand in _candidates(case):
            if time.time() >= t_end:
                break
            steps += 1
            try:
                ok = fails_same(cand)
            except Exception:
                ok = False
            if ok:
                case = cand
                improved = True
                break
    return case, steps


def try_case(check_case, case):
    """Run check_case totally: returns Violation or None."""
    try:
        check_case(case)
    except Violation as v:
        return v
    except Skip:
        return None
    except Exception:
        return None
    return None


def fmt_exc(e):
    return "".join(traceback.format_exception_only(type(e), e)).strip()[:400]


def guarded(ctx: Ctx, check_case):
    """Wrap check_case so that an unexpected exception in the harness itself is
    tallied (bucketed by type + innermost frame) instead of killing the shard."""

    def w(case):
        try:
            return check_case(case)
        except (Violation, Skip):
            raise
        except (KeyboardInterrupt, SystemExit, MemoryError):
            raise
        except BaseException as e:  # noqa
            tb = traceback.extract_tb(e.__traceback__)
            where = f"{tb[-1].filename.split('/')[-1]}:{tb[-1].lineno}" if tb else "?"
            key = f"{type(e).__name__}@{where}"
            he = ctx.extra.setdefault("harness_errors", {})
            if key not in he:
                he[key] = {"n": 0, "tb": "".join(traceback.format_exception(e))[-1500:], "case": case}
            he[key]["n"] += 1
            raise Skip("harness-error")

    return w


def run_systematic(ctx: Ctx, cases, check_case, keep_one_in=1, label="systematic", presharded=False):
    """Deterministic enumeration tier: `cases` is an iterable of JSON cases; this shard takes
    every nshards-th one, optionally thinned to one in `keep_one_in` by a hash of
    (VERIF_SEED, index) so that different seeds cover different slices."""
    n = 0
    for idx, case in enumerate(cases):
        if not presharded and idx % ctx.nshards != ctx.shard:
            continue
        k = keep_one_in(case) if callable(keep_one_in) else keep_one_in
        if k > 1:
            h = int(hashlib.sha256(f"{ctx.seed}:{label}:{ctx.shard if presharded else 0}:{idx}".encode()).hexdigest()[:8], 16)
            if h % k:
                continue
        n += 1
        try:
            info = check_case(case)
        except Skip as s:
            ctx.skipped[str(s) or "skip"] += 1
            ctx.evaluations += 1
            continue
        except Violation as v:
            ctx.evaluations += 1
            ctx.fail(v, case)
            continue
        if info is not None:
            info.setdefault("classes", []).append(label)
        ctx.record(info, case)
    ctx.extra[label + "_cases"] = ctx.extra.get(label + "_cases", 0) + n


# --------------------------------------------------------------------------- #
# z3 'unknown' verdicts (harness-side observation; nothing in the repository is touched)

_Z3_UNKNOWN = [0]


def watch_z3():
    """Count `unknown` verdicts of z3.  Exo treats them as 'cannot prove'; whether z3 gives up
    ('incomplete quantifiers') depends on variable names and solver state, i.e. on the process
    history (known finding C18-z3-unknown), so oracles that compare two runs of the same call
    consult this counter before calling a difference a violation."""
    try:
        import z3
    except Exception:
        return _Z3_UNKNOWN
    if getattr(z3.Solver.check, "_verif", False):
        return _Z3_UNKNOWN
    orig = z3.Solver.check

    def check(self, *a):
        r = orig(self, *a)
        if str(r) == "unknown":
            _Z3_UNKNOWN[0] += 1
        return r

    check._verif = True
    z3.Solver.check = check
    return _Z3_UNKNOWN
