"""Grammar-based generator G of Exo programs (as a JSON AST rendered to source text).

Programs are *constructed* in bounds: every index variable in scope carries an interval
(constant, or symbolic `size + c`), and an index expression is only emitted for a
dimension if its brute-forced range fits.  Names come from tiny pools so that shadowing
and sibling reuse are common.

JSON AST
  program = {"prec": "f32", "callees": [proc..], "main": proc}
  proc    = {"name", "args": [arg..], "preds": [str..], "body": [stmt..]}
  arg     = {"name", "kind": size|index|bool|scalar|tensor|window, "prec", "dims": [str..], "mem"}
  stmt    = ["assign"|"reduce", buf, [idx..], rhs] | ["for", it, lo, hi, body, "seq"|"par"]
          | ["if", cond, body, orelse] | ["alloc", name, prec, [dims], mem]
          | ["window", name, src, [["pt", e] | ["iv", lo, hi]]] | ["call", f, [args]]
          | ["wcfg", cfg, field, rhs] | ["pass"]
  all expressions are strings in Exo syntax.
"""
from __future__ import annotations

import itertools

from hypothesis import strategies as st

CONFIG_PRELUDE = '''
@config
class CfgA:
    a: index
    s: f32
    flag: bool
    b: index

@config
class CfgB:
    k: index
    t: f32
'''

CFG_FIELDS = {
    ("CfgA", "a"): "index",
    ("CfgA", "s"): "f32",
    ("CfgA", "flag"): "bool",
    ("CfgA", "b"): "index",
    ("CfgB", "k"): "index",
    ("CfgB", "t"): "f32",
}

ITER_POOL = ["i", "j", "k", "i", "j", "ii"]
BUF_POOL = ["a", "b", "t", "a_1", "tmp", "a", "t"]
ARG_POOL = ["x", "y", "z", "w", "out"]
PRECS = ["f32", "f64", "i8", "i32", "f32", "f32", "R", "ui8", "ui16", "f16"]
MEMS = ["DRAM", "DRAM", "DRAM", "DRAM_STACK", "DRAM_STATIC", "MDRAM"]

# --------------------------------------------------------------------------- #
# tiny expression trees for index expressions (so ranges can be brute-forced)


def e_render(e):
    k = e[0]
    if k == "v":
        return e[1]
    if k == "c":
        return str(e[1])
    if k == "neg":
        return f"-({e_render(e[1])})" if e[1][0] not in ("v", "c") else f"-{e_render(e[1])}"
    a, b = e[1], e[2]
    ra, rb = e_render(a), e_render(b)
    if a[0] not in ("v", "c") and not (k in "+-" and a[0] in "+-*"):
        ra = f"({ra})"
    if b[0] not in ("v", "c") and not (k == "+" and b[0] in "+*"):
        rb = f"({rb})"
    elif b[0] == "c" and b[1] < 0:
        rb = f"({rb})"
    if a[0] == "c" and a[1] < 0:
        ra = f"({ra})"
    return f"{ra} {k} {rb}"


def e_eval(e, env):
    k = e[0]
    if k == "v":
        return env[e[1]]
    if k == "c":
        return e[1]
    if k == "neg":
        return -e_eval(e[1], env)
    a, b = e_eval(e[1], env), e_eval(e[2], env)
    if k == "+":
        return a + b
    if k == "-":
        return a - b
    if k == "*":
        return a * b
    if k == "/":
        return a // b
    if k == "%":
        return a % b
    raise ValueError(k)


def e_vars(e, acc=None):
    acc = set() if acc is None else acc
    if e[0] == "v":
        acc.add(e[1])
    elif e[0] != "c":
        for s in e[1:]:
            e_vars(s, acc)
    return acc


# --------------------------------------------------------------------------- #


class Var:
    """index variable in scope.  lo..hi constant bounds; if sym is set, the upper bound is
    `sym + hi` (sym is a size argument name) and lo is a constant."""

    __slots__ = ("name", "lo", "hi", "sym")

    def __init__(self, name, lo, hi, sym=None):
        self.name, self.lo, self.hi, self.sym = name, lo, hi, sym


class Buf:
    __slots__ = ("name", "dims", "prec", "writable", "kind", "init", "is_win")

    def __init__(self, name, dims, prec, writable=True, kind="tensor", init=True, is_win=False):
        # dims: list of (sym|None, const)   extent = sym + const  (or const)
        self.name, self.dims, self.prec = name, dims, prec
        self.writable, self.kind, self.init, self.is_win = writable, kind, init, is_win


def dim_str(d):
    s, c = d
    if s is None:
        return str(c)
    if c == 0:
        return s
    return f"{s} + {c}" if c > 0 else f"{s} - {-c}"


class Scope:
    def __init__(self, parent=None):
        self.vars = dict(parent.vars) if parent else {}
        self.bufs = dict(parent.bufs) if parent else {}
        self.sizes = dict(parent.sizes) if parent else {}  # size name -> (min, divisor)
        self.bools = list(parent.bools) if parent else []
        self.depth = parent.depth + 1 if parent else 0
        self.in_par = parent.in_par if parent else False
        self.locals = set()  # names allocated in this very scope


class ProgGen:
    def __init__(self, draw, opts):
        self.draw = draw
        self.o = opts
        self.prec = None
        self.callees = []
        self.budget = opts.get("max_stmts", 12)
        self.max_depth = opts.get("max_depth", 3)
        self.use_cfg = False
        self.counter = itertools.count()

    # -- drawing helpers
    def pick(self, xs):
        return xs[self.draw(st.integers(0, len(xs) - 1))]

    def chance(self, pct):
        return self.draw(st.integers(0, 99)) < pct

    def int(self, lo, hi):
        return self.draw(st.integers(lo, hi))

    # -- index expressions
    def const_vars(self, sc):
        return [v for v in sc.vars.values() if v.sym is None and v.hi - v.lo <= 16]

    def dim_min(self, sc, d):
        s, c = d
        return c if s is None else sc.sizes[s][0] + c

    def rng_of(self, sc, e):
        vs = sorted(e_vars(e))
        doms = [range(sc.vars[v].lo, sc.vars[v].hi + 1) for v in vs]
        lo = hi = None
        n = 0
        for combo in itertools.product(*doms):
            val = e_eval(e, dict(zip(vs, combo)))
            lo = val if lo is None else min(lo, val)
            hi = val if hi is None else max(hi, val)
            n += 1
            if n > 5000:
                return None
        return (lo, hi)

    def affine(self, sc, depth=2):
        """random quasi-affine tree over constant-bounded vars (negative intermediates on purpose)"""
        cv = self.const_vars(sc)
        if not cv or depth == 0 or self.chance(15):
            if cv and self.chance(75):
                return ("v", self.pick(cv).name)
            return ("c", self.int(0, 5))
        k = self.int(0, 9)
        a = self.affine(sc, depth - 1)
        if k == 0:
            return ("+", a, ("c", self.int(1, 4)))
        if k == 1:
            return ("-", a, ("c", self.int(1, 4)))
        if k == 2:
            return ("*", ("c", self.int(2, 3)), a)
        if k == 3:
            return ("/", a, ("c", self.int(2, 4)))
        if k == 4:
            return ("%", a, ("c", self.int(2, 4)))
        if k == 5:
            return ("+", a, self.affine(sc, depth - 1))
        if k == 6:
            return ("-", ("c", self.int(1, 6)), a)
        if k == 7:
            return ("%", ("-", a, ("c", self.int(1, 4))), ("c", self.int(2, 4)))
        if k == 8:
            return ("/", ("+", a, ("c", self.int(-3, 3))), ("c", self.int(2, 3)))
        return ("-", a, self.affine(sc, depth - 1))

    def index_for(self, sc, d):
        """an index expression (string) valid for extent d=(sym,c)"""
        s, c = d
        dmin = self.dim_min(sc, d)
        for _ in range(6):
            mode = self.int(0, 9)
            if mode <= 5:
                e = self.affine(sc, 2)
                r = self.rng_of(sc, e)
                if r is None:
                    continue
                lo, hi = r
                if lo < 0:
                    e = ("+", e, ("c", -lo))
                    hi -= lo
                    lo = 0
                if hi <= dmin - 1:
                    return e_render(e)
                if e[0] != "c" and dmin >= 2 and self.chance(60):
                    e = ("%", e, ("c", self.int(2, min(dmin, 4))))
                    return e_render(e)
            elif mode <= 8 and s is not None:
                # symbolic: v with upper bound s + off
                cands = [v for v in sc.vars.values() if v.sym == s]
                if cands:
                    v = self.pick(cands)
                    # v in [lo, s + hi];  need lo + k >= 0 and hi + k <= c - 1
                    kmin, kmax = -v.lo, c - 1 - v.hi
                    if kmin <= kmax:
                        k = self.int(kmin, min(kmax, kmin + 3))
                        if k == 0:
                            return v.name
                        return f"{v.name} + {k}" if k > 0 else f"{v.name} - {-k}"
                    # reversed: s + c - 1 - v  in [c-1-hi, s + c - 1 - lo]
                    if c - 1 - v.hi >= 0:
                        return f"{dim_str((s, c - 1))} - {v.name}"
            else:
                return str(self.int(0, max(0, min(dmin - 1, 3))))
        return "0"

    def access(self, sc, b):
        return [self.index_for(sc, d) for d in b.dims]

    # -- data expressions
    def lit(self):
        if self.prec in ("f32", "f64", "R") and self.o.get("odd_literals", True) and self.chance(6):
            # literals whose printed form uses exponent notation or many digits
            return self.pick(["1e-07", "1.25e-05", "0.0001", "1e-12", "0.1", "0.2659615202676218", "1e+20", "123456.75"])
        return self.pick(["0.0", "1.0", "2.0", "3.0", "0.5", "-1.0", "4.0"]) if self.prec not in ("i8", "i32", "ui8", "ui16") else self.pick(["0.0", "1.0", "2.0", "3.0"])

    def readable(self, sc, prec=None):
        return [b for b in sc.bufs.values() if (prec is None or b.prec == prec) and b.init]

    def data_expr(self, sc, prec, depth=2, avoid=None):
        bs = [b for b in self.readable(sc, prec) if b.name != avoid]
        k = self.int(0, 11)
        if depth == 0 or k <= 3 or not bs:
            if bs and self.chance(80):
                b = self.pick(bs)
                if not b.dims:
                    return b.name
                return f"{b.name}[{', '.join(self.access(sc, b))}]"
            if self.use_cfg and prec == "f32" and self.chance(30):
                return self.pick(["CfgA.s", "CfgB.t"])
            return self.lit()
        a = self.data_expr(sc, prec, depth - 1, avoid)
        b = self.data_expr(sc, prec, depth - 1, avoid)
        if k <= 6:
            return f"{a} + {b}"
        if k <= 8:
            return f"({a}) * ({b})"
        if k == 9:
            return f"{a} - ({b})"
        if k == 10 and prec in ("f32", "f64", "R") and self.o.get("externs", True):
            f = self.pick(["relu", "select", "fmaxf", "sin", "relu", "select"])
            if f == "select":
                return f"select({a}, {b}, {self.data_expr(sc, prec, 0, avoid)}, {self.lit()})"
            if f == "fmaxf":
                if prec != "f32":
                    return f"relu({a})"
                return f"fmaxf({a}, {b})"
            return f"{f}({a})"
        if prec in ("f32", "f64", "R") and self.o.get("data_div", True):
            return f"({a}) / {self.pick(['2.0', '4.0'])}"
        return f"{a} + {b}"

    # -- conditions
    def cond(self, sc):
        opts = []
        cv = self.const_vars(sc)
        k = self.int(0, 9)
        if self.chance(self.o.get("stride_cond_pct", 8)):
            # layout dispatch on the stride of an argument (window args get drawn strides)
            sb = [b for b in sc.bufs.values() if b.kind == "arg" and b.dims]
            if sb:
                b = self.pick(sb)
                d = self.int(0, len(b.dims) - 1)
                return f"stride({b.name}, {d}) == {self.pick([1, 1, 2, 4, 8])}"
        if cv and k <= 4:
            v = self.pick(cv)
            c = self.int(v.lo - 1, v.hi + 1)
            op = self.pick(["<", "==", ">=", "<=", ">"])
            if self.chance(25):
                return f"{v.name} % 2 == {self.int(0, 1)}"
            return f"{v.name} {op} {c}"
        if sc.sizes and k <= 6:
            s = self.pick(sorted(sc.sizes))
            return f"{s} {self.pick(['>', '<=', '=='])} {self.int(1, 5)}"
        if sc.bools and k <= 7:
            return self.pick(sc.bools)
        if self.use_cfg and k <= 8:
            return self.pick(["CfgA.a == 2", "CfgA.flag", "CfgB.k < 3", "CfgA.a >= 1"])
        if cv and self.chance(50):
            return f"{e_render(self.affine(sc, 2))} {self.pick(['<', '<=', '==', '>'])} {e_render(self.affine(sc, 1))}"
        if cv:
            v = self.pick(cv)
            w = self.pick(cv)
            return f"{v.name} + {self.int(0,2)} < {w.name} + {self.int(0, 3)}" if self.chance(50) else f"{v.name} >= {self.int(v.lo, v.hi)} and {w.name} < {self.int(w.lo, w.hi + 1)}"
        if sc.sizes:
            s = self.pick(sorted(sc.sizes))
            return f"{s} > {self.int(1, 4)}"
        return "0 < 1"

    # -- statements
    def fresh_iter(self, sc):
        return self.pick(ITER_POOL)

    def stmts(self, sc, n):
        out = []
        for _ in range(n):
            if self.budget <= 0:
                break
            out.extend(self.stmt(sc))
        if not out:
            out.append(self.simple_write(sc) or ["pass"])
        return out

    def writable(self, sc):
        ws = [b for b in sc.bufs.values() if b.writable]
        if sc.in_par:
            # inside a par loop the safe mode only writes buffers private to the iteration
            pass
        return ws

    def simple_write(self, sc, force_assign=False):
        ws = self.writable(sc)
        if not ws:
            return None
        b = self.pick(ws)
        idx = self.access(sc, b)
        rhs = self.data_expr(sc, b.prec, 2)
        kind = "assign" if force_assign or self.chance(60) else "reduce"
        if kind == "assign":
            b.init = True
        elif not b.init:
            kind = "assign"
            b.init = True
        return [kind, b.name, idx, rhs]

    def stmt(self, sc):
        self.budget -= 1
        k = self.int(0, 99)
        deep = sc.depth >= self.max_depth
        if k < 30 or (deep and k < 75):
            w = self.simple_write(sc)
            return [w] if w else [["pass"]]
        if k < 55 and not deep:
            return [self.loop(sc)]
        if k < 65 and not deep:
            return [self.ifstmt(sc)]
        if k < 76:
            return self.alloc(sc)
        if k < 82:
            w = self.window(sc)
            return [w] if w else [["pass"]]
        if k < 90 and self.callees:
            c = self.call(sc)
            return [c] if c else [["pass"]]
        if k < 94 and self.use_cfg:
            return [self.wcfg(sc)]
        if k < 96:
            return [["pass"]]
        w = self.simple_write(sc)
        return [w] if w else [["pass"]]

    def loop(self, sc, mode=None):
        it = self.fresh_iter(sc)
        inner = Scope(sc)
        k = self.int(0, 11)
        sizes = sorted(sc.sizes)
        cv = self.const_vars(sc)
        if k <= 3 or (not sizes and k <= 6):
            hi = self.int(1, 8)
            lo = 0
            var = Var(it, 0, hi - 1)
            los, his = "0", str(hi)
        elif k == 4:
            lo = self.int(1, 3)
            hi = lo + self.int(1, 6)
            var = Var(it, lo, hi - 1)
            los, his = str(lo), str(hi)
        elif k <= 7 and sizes:
            s = self.pick(sizes)
            lo = self.int(0, 1) if self.chance(30) else 0
            if lo > sc.sizes[s][0]:
                lo = 0
            var = Var(it, lo, -1, s)  # it <= s - 1
            los, his = str(lo), s
        elif k == 8 and cv:
            # triangular: for it in seq(0, v + 1)
            v = self.pick(cv)
            if v.lo >= 0:
                var = Var(it, 0, v.hi)
                los, his = "0", f"{v.name} + 1"
            else:
                var = Var(it, 0, 3)
                los, his = "0", "4"
        elif k == 9 and cv and self.chance(60):
            # quasi-affine upper bound over bounded variables (may be zero-trip)
            e = self.affine(sc, 2)
            r = self.rng_of(sc, e)
            if r is None or r[1] - r[0] > 12:
                e, r = ("c", 3), (3, 3)
            if r[0] < 0:
                e = ("+", e, ("c", -r[0]))
                r = (0, r[1] - r[0])
            var = Var(it, 0, max(0, r[1] - 1))
            los, his = "0", e_render(e)
        elif k == 9:
            # zero-trip loop
            c = self.int(0, 3)
            var = Var(it, c, c)  # never executes; give it a harmless range
            los, his = str(c), str(c)
        elif k == 10 and sizes:
            s = self.pick(sizes)
            if sc.sizes[s][0] >= 2 or True:
                # seq(0, s - 1): may be zero-trip when s == 1
                var = Var(it, 0, -2, s)
                los, his = "0", f"{s} - 1"
        else:
            lo = self.int(0, 2)
            hi = lo + self.int(0, 5)
            var = Var(it, lo, max(lo, hi - 1))
            los, his = str(lo), str(hi)
        inner.vars[it] = var
        par = mode == "par" or (mode is None and self.o.get("par", False) and self.chance(20))
        if par:
            inner.in_par = True
        body = self.stmts(inner, self.int(1, 3))
        # propagate initialisation knowledge conservatively: nothing learned from a loop
        return ["for", it, los, his, body, "par" if par else "seq"]

    def ifstmt(self, sc):
        # guarded-access pattern: if v + c < n: ... x[v + c]
        inner = Scope(sc)
        sizes = sorted(sc.sizes)
        symvars = [v for v in sc.vars.values() if v.sym is not None]
        if symvars and self.chance(40):
            v = self.pick(symvars)
            c = self.int(1, 3)
            cond = f"{v.name} + {c} < {v.sym}"
            g = f"g{next(self.counter)}"
            # inside: w := v + c  is <= sym - 1; emulate by shadowing v's bounds for the
            # expression "v + c" through a derived pseudo variable is not expressible, so
            # the body simply uses index  v + c  on buffers of extent sym
            bs = [b for b in sc.bufs.values() if b.init and any(d == (v.sym, 0) for d in b.dims)]
            ws = [b for b in self.writable(sc)]
            if bs and ws:
                b = self.pick(bs)
                idx = []
                used = False
                for d in b.dims:
                    if d == (v.sym, 0) and not used:
                        idx.append(f"{v.name} + {c}")
                        used = True
                    else:
                        idx.append(self.index_for(sc, d))
                w = self.pick(ws)
                body = [["assign" if w.init is False or self.chance(50) else "reduce", w.name, self.access(sc, w), f"{b.name}[{', '.join(idx)}]"]]
                return ["if", cond, body, []]
        cond = self.cond(sc)
        body = self.stmts(inner, self.int(1, 2))
        orelse = self.stmts(Scope(sc), self.int(1, 2)) if self.chance(35) else []
        if cond.startswith("stride("):
            # the front end cannot negate an equation between strides ("TODO: add != support"):
            # an else-branch under a stride test is outside the accepted source language
            orelse = []
        return ["if", cond, body, orelse]

    def alloc(self, sc):
        name = self.pick(BUF_POOL)
        if name in sc.locals or (name in sc.bufs and sc.bufs[name].kind != "alloc"):
            name = f"{name}{next(self.counter)}"
        rank = self.pick([0, 1, 1, 1, 2])
        dims = []
        for _ in range(rank):
            if sc.sizes and self.chance(30):
                s = self.pick(sorted(sc.sizes))
                dims.append((s, self.pick([0, 0, 1])))
            else:
                dims.append((None, self.pick([1, 2, 4, 4, 6, 8, 8, 12])))
        prec = self.prec if self.chance(90) else self.pick(["f32", "f64", "i32"])
        if prec != self.prec:
            prec = self.prec  # keep single precision per procedure in safe mode
        mem = self.pick(MEMS) if self.o.get("mems", True) else "DRAM"
        if mem == "DRAM_STATIC" and any(d[0] is not None for d in dims):
            mem = "DRAM"
        b = Buf(name, dims, prec, True, "alloc", init=False)
        out = [["alloc", name, prec, [dim_str(d) for d in dims], mem]]
        sc.bufs[name] = b
        sc.locals.add(name)
        if self.chance(80):
            # initialise fully
            b.init = True
            rhs_sc = Scope(sc)
            rhs_sc.bufs = {k: v for k, v in sc.bufs.items() if k != name}
            if rank == 0:
                out.append(["assign", name, [], self.data_expr(rhs_sc, prec, 1)])
            else:
                its = [f"i{r}" for r in range(rank)]
                inner = Scope(rhs_sc)
                for itn, d in zip(its, dims):
                    inner.vars[itn] = Var(itn, 0, d[1] - 1, d[0])
                body = [["assign", name, its, self.data_expr(inner, prec, 1)]]
                for itn, d in reversed(list(zip(its, dims))):
                    body = [["for", itn, "0", dim_str(d), body, "seq"]]
                out.extend(body)
        return out

    def window(self, sc):
        bs = [b for b in sc.bufs.values() if b.dims and all(d[0] is None or True for d in b.dims)]
        if not bs:
            return None
        b = self.pick(bs)
        acc = []
        dims = []
        for d in b.dims:
            dmin = self.dim_min(sc, d)
            if self.chance(30) and len(b.dims) > 1:
                acc.append(["pt", self.index_for(sc, d)])
            elif d[0] is not None and self.chance(60):
                acc.append(["iv", "0", dim_str(d)])
                dims.append(d)
            else:
                lo = self.int(0, max(0, dmin - 1))
                hi = self.int(lo + 1, dmin) if dmin > lo else lo + 1
                if hi > dmin:
                    lo, hi = 0, dmin
                acc.append(["iv", str(lo), str(hi)])
                dims.append((None, hi - lo))
        if not dims:
            return None
        name = self.pick(["w", "w", "win", "a"])
        if name in sc.bufs:
            name = f"{name}{next(self.counter)}"
        sc.bufs[name] = Buf(name, dims, b.prec, b.writable, "window", init=b.init, is_win=True)
        sc.locals.add(name)
        return ["window", name, b.name, acc]

    def wcfg(self, sc):
        f = self.pick([("CfgA", "a"), ("CfgA", "s"), ("CfgB", "k"), ("CfgA", "flag"), ("CfgB", "t"), ("CfgA", "b")])
        ty = CFG_FIELDS[f]
        if ty == "index":
            # the type checker forbids config writes that depend on loop iterators
            cv = [v for v in self.const_vars(sc) if v.name == "p"]
            rhs = self.pick(cv).name if cv and self.chance(40) else str(self.int(0, 4))
        elif ty == "bool":
            rhs = self.pick(sc.bools) if sc.bools and self.chance(50) else self.pick(["True", "False"])
        else:
            # (Exo's effect analysis cannot lower literal data values written to a config field
            #  -- internal 'bad case' -- so scalar variables are preferred)
            scal = [b for b in sc.bufs.values() if not b.dims and b.prec == "f32" and b.init]
            rhs = self.pick(scal).name if scal and self.chance(85) else self.lit()
        return ["wcfg", f[0], f[1], rhs]

    def forced_call(self, sc):
        """allocate fresh, fully initialised buffers that fit a callee's parameters, then call it"""
        c = self.pick(self.callees)
        smax = {a["name"]: a["max"] for a in c["args"] if a["kind"] == "size" and "max" in a}
        out = []
        made = []
        for a in c["args"]:
            if a["kind"] not in ("tensor", "window") or self.chance(35):
                continue
            dims = []
            for w in a["dims"]:
                if w.isdigit():
                    dims.append((None, int(w) + (0 if a["kind"] == "tensor" else self.pick([0, 0, 1, 3]))))
                else:
                    dims.append((None, min(4, smax.get(w, 4)) + (0 if a["kind"] == "tensor" else self.pick([0, 0, 2]))))
            name = f"cb{next(self.counter)}"
            b = Buf(name, dims, a["prec"], True, "alloc", init=True)
            out.append(["alloc", name, a["prec"], [dim_str(d) for d in dims], "DRAM"])
            its = [f"i{r}" for r in range(len(dims))]
            inner = Scope(sc)
            for itn, d in zip(its, dims):
                inner.vars[itn] = Var(itn, 0, d[1] - 1, d[0])
            body = [["assign", name, its, self.data_expr(inner, a["prec"], 1)]]
            for itn, d in reversed(list(zip(its, dims))):
                body = [["for", itn, "0", dim_str(d), body, "seq"]]
            out.extend(body)
            sc.bufs[name] = b
            sc.locals.add(name)
            made.append(name)
        for a in c["args"]:
            if a["kind"] == "scalar":
                name = f"cs{next(self.counter)}"
                out.append(["alloc", name, a["prec"], [], "DRAM"])
                out.append(["assign", name, [], self.data_expr(sc, a["prec"], 1)])
                sc.bufs[name] = Buf(name, [], a["prec"], True, "alloc", init=True)
                sc.locals.add(name)
                made.append(name)
        call = self.call(sc, c)
        if call is None:
            for nme in made:
                sc.bufs.pop(nme, None)
            return None
        return out + [call]

    def call(self, sc, c=None):
        c = c or self.pick(self.callees)
        args = []
        used = set()
        binds = {}
        # choose actuals for numeric params first (they determine sizes)
        plan = {}
        smax = {a["name"]: a["max"] for a in c["args"] if a["kind"] == "size" and "max" in a}
        for a in c["args"]:
            if a["kind"] in ("tensor", "window"):
                # callee dims are [size-name] or [const]; find a buffer + window that fits
                cands = [b for b in sc.bufs.values() if b.dims and b.prec == a["prec"] and b.name not in used and (b.writable or not a.get("written", True)) and (b.init or a.get("written", True))]
                if a["kind"] == "tensor":
                    cands = [b for b in cands if not b.is_win and len(b.dims) == len(a["dims"])]
                if not cands:
                    return None
                b = self.pick(cands)
                acc = []
                k = 0
                want = list(a["dims"])
                whole = True
                # map callee dims onto trailing/interval positions of b
                npt = len(b.dims) - len(want)
                if npt < 0:
                    return None
                pts = set(self.draw(st.permutations(range(len(b.dims))))[:npt]) if npt else set()
                wi = 0
                for di, d in enumerate(b.dims):
                    if di in pts:
                        acc.append(self.index_for(sc, d))
                        whole = False
                        continue
                    w = want[wi]
                    wi += 1
                    dmin = self.dim_min(sc, d)
                    if w.isdigit():
                        n = int(w)
                        if n > dmin:
                            return None
                        lo = self.int(0, dmin - n)
                        if not (lo == 0 and d == (None, n)):
                            whole = False
                        acc.append(f"{lo}:{lo + n}")
                    else:
                        # size parameter: bind to the full extent or a constant sub-range
                        if w in binds:
                            # must equal previous binding
                            prev = binds[w]
                            if prev == dim_str(d):
                                acc.append(f"0:{dim_str(d)}")
                            elif prev.isdigit() and int(prev) <= dmin:
                                acc.append(f"0:{prev}")
                                whole = whole and d == (None, int(prev))
                            else:
                                return None
                        elif (self.chance(60) or dmin < 2) and (d[0] is None and d[1] <= smax.get(w, 99)):
                            binds[w] = dim_str(d)
                            acc.append(f"0:{dim_str(d)}")
                        else:
                            n = self.int(1, min(dmin, smax.get(w, 99)))
                            lo = self.int(0, dmin - n)
                            binds[w] = str(n)
                            acc.append(f"{lo}:{lo + n}")
                            whole = whole and (lo == 0 and d == (None, n))
                used.add(b.name)
                if a.get("written", True):
                    b.init = b.init  # partial writes do not initialise
                if whole and (a["kind"] == "tensor" or self.chance(50)):
                    plan[a["name"]] = b.name
                elif a["kind"] == "tensor":
                    return None
                else:
                    plan[a["name"]] = f"{b.name}[{', '.join(acc)}]"
            elif a["kind"] == "scalar":
                cands = [b for b in sc.bufs.values() if not b.dims and b.prec == a["prec"] and b.name not in used and (b.writable or not a.get("written", False)) and b.init]
                if not cands:
                    return None
                b = self.pick(cands)
                used.add(b.name)
                plan[a["name"]] = b.name if not b.dims else f"{b.name}[{', '.join(self.access(sc, b))}]"
        for a in c["args"]:
            if a["kind"] == "size":
                if a["name"] in binds:
                    args.append(binds[a["name"]])
                else:
                    args.append(str(self.int(1, min(4, smax.get(a["name"], 4)))))
            elif a["kind"] == "index":
                cv = self.const_vars(sc)
                lo, hi = a.get("range", (0, 3))
                ok = [v for v in cv if v.lo >= lo and v.hi <= hi]
                args.append(self.pick(ok).name if ok and self.chance(50) else str(self.int(lo, hi)))
            elif a["kind"] == "bool":
                args.append(self.pick(sc.bools) if sc.bools and self.chance(50) else self.pick(["True", "False"]))
            else:
                args.append(plan[a["name"]])
        return ["call", c["name"], args]

    # -- procedures
    def callee(self, idx):
        name = f"sub{idx}"
        sc = Scope()
        args = []
        preds = []
        nsz = self.int(0, 1)
        if nsz:
            args.append({"name": "n", "kind": "size"})
            sc.sizes["n"] = (1, 1)
        if self.chance(25):
            args.append({"name": "p", "kind": "index", "range": (0, 3)})
            preds.append("p >= 0 and p <= 3")
            sc.vars["p"] = Var("p", 0, 3)
        if self.chance(15):
            args.append({"name": "flag", "kind": "bool"})
            sc.bools.append("flag")
        nbuf = self.int(1, 2)
        for bi in range(nbuf):
            nm = ["dst", "src"][bi]
            rank = self.pick([1, 1, 2])
            dims = []
            for r in range(rank):
                if nsz and self.chance(60):
                    dims.append(("n", 0))
                else:
                    dims.append((None, self.pick([2, 4, 4, 8])))
            kind = self.pick(["window", "window", "tensor"])
            written = bi == 0
            args.append({"name": nm, "kind": kind, "prec": self.prec, "dims": [dim_str(d) for d in dims], "mem": "DRAM", "written": written})
            sc.bufs[nm] = Buf(nm, dims, self.prec, written, "arg", init=True, is_win=kind == "window")
            if kind == "window" and self.chance(15):
                preds.append(f"stride({nm}, {rank - 1}) == 1")
        if self.chance(30):
            args.append({"name": "c", "kind": "scalar", "prec": self.prec, "mem": "DRAM", "written": False})
            sc.bufs["c"] = Buf("c", [], self.prec, False, "arg", init=True)
        if nsz and self.chance(20):
            mx = self.int(4, 8)
            preds.append(f"n <= {mx}")
            args[0]["max"] = mx
        save = self.budget, self.callees, self.max_depth
        self.budget, self.callees, self.max_depth = self.int(2, 4), [], 2
        body = self.stmts(sc, self.int(1, 2))
        self.budget, self.callees, self.max_depth = save
        return {"name": name, "args": args, "preds": preds, "body": body}

    def main(self):
        sc = Scope()
        args = []
        preds = []
        nsz = self.pick([0, 1, 1, 2])
        for s in ["n", "m"][:nsz]:
            args.append({"name": s, "kind": "size"})
            mn = 1
            if self.chance(25):
                mn = self.int(2, 4)
                preds.append(f"{s} >= {mn}")
            if self.chance(15):
                q = self.pick([2, 4])
                preds.append(f"{s} % {q} == 0")
                mn = max(mn, q) if mn % q else mn
                mn = ((mn + q - 1) // q) * q
                sc.sizes[s] = (mn, q)
            else:
                sc.sizes[s] = (mn, 1)
            if self.chance(40):
                # a bounded size takes part in quasi-affine index arithmetic like an index variable
                mx = max(mn, self.pick([5, 6, 8]))
                preds.append(f"{s} <= {mx}")
                sc.vars[s] = Var(s, sc.sizes[s][0], mx)
        if self.chance(self.o.get("index_arg_pct", 30)):
            lo, hi = self.int(-3, 0), self.int(0, 4)
            # (sometimes named like a loop iterator, so that inner loops shadow the argument)
            pn = self.pick(["i", "k", "j"]) if self.chance(self.o.get("shadow_pct", 50)) else "p"
            args.append({"name": pn, "kind": "index", "range": (lo, hi)})
            preds.append(f"{pn} >= {lo} and {pn} <= {hi}" if lo >= 0 else f"{lo} <= {pn} and {pn} <= {hi}")
            sc.vars[pn] = Var(pn, lo, hi)
        if self.chance(20):
            args.append({"name": "flag", "kind": "bool"})
            sc.bools.append("flag")
        nbuf = self.int(1, 3)
        for bi in range(nbuf):
            nm = ARG_POOL[bi]
            rank = self.pick([1, 1, 2, 2, 0] if bi else [1, 1, 2])
            force_w2 = bi == 0 and self.o.get("force_window2d", False)
            if force_w2:
                rank = 2
            if self.use_cfg and bi == nbuf - 1 and bi > 0 and self.prec == "f32" and self.chance(60):
                rank = 0  # a scalar to write into / read from config fields
            dims = []
            for r in range(rank):
                if sc.sizes and self.chance(50):
                    s = self.pick(sorted(sc.sizes))
                    dims.append((s, self.pick([0, 0, 0, 1, 2])))
                else:
                    dims.append((None, self.pick([2, 4, 4, 6, 8, 8, 12, 16])))
            kind = "scalar" if rank == 0 else self.pick(["tensor", "tensor", "window"])
            if force_w2:
                kind = "window"
            mem = "DRAM"
            args.append({"name": nm, "kind": kind, "prec": self.prec, "dims": [dim_str(d) for d in dims], "mem": mem})
            sc.bufs[nm] = Buf(nm, dims, self.prec, True, "arg", init=True, is_win=kind == "window")
            if kind == "window" and self.chance(15):
                preds.append(f"stride({nm}, {rank - 1}) == 1")
        body = self.stmts(sc, self.int(2, 5))
        if self.o.get("force_call") and self.callees and not any(s[0] == "call" for s in body):
            for _ in range(4):
                c = self.forced_call(sc)
                if c:
                    body.extend(c)
                    break
        return {"name": "foo", "args": args, "preds": preds, "body": body}

    def program(self):
        o = self.o
        precs = o.get("precs", PRECS)
        self.prec = self.pick(precs)
        self.use_cfg = o.get("configs", True) and self.chance(o.get("config_pct", 25))
        ncal = self.int(1 if o.get("force_call") else 0, 2) if o.get("calls", True) else 0
        callees = []
        for i in range(ncal):
            callees.append(self.callee(i))
        self.callees = callees
        self.budget = self.int(3, o.get("max_stmts", 12))
        main = self.main()
        return {"prec": self.prec, "cfg": self.use_cfg, "callees": callees, "main": main}


@st.composite
def programs(draw, **opts):
    return ProgGen(draw, opts).program()


# --------------------------------------------------------------------------- #
# rendering


def render_arg(a):
    k = a["kind"]
    if k == "size":
        return f"{a['name']}: size"
    if k == "index":
        return f"{a['name']}: index"
    if k == "bool":
        return f"{a['name']}: bool"
    mem = f" @ {a['mem']}" if a.get("mem") else ""
    if k == "scalar":
        return f"{a['name']}: {a['prec']}{mem}"
    dims = ", ".join(a["dims"])
    if k == "window":
        return f"{a['name']}: [{a['prec']}][{dims}]{mem}"
    return f"{a['name']}: {a['prec']}[{dims}]{mem}"


def render_stmts(stmts, ind, out):
    pad = "    " * ind
    if not stmts:
        out.append(pad + "pass")
    for s in stmts:
        k = s[0]
        if k in ("assign", "reduce"):
            lhs = s[1] + (f"[{', '.join(s[2])}]" if s[2] else "")
            out.append(f"{pad}{lhs} {'=' if k == 'assign' else '+='} {s[3]}")
        elif k == "for":
            out.append(f"{pad}for {s[1]} in {s[5]}({s[2]}, {s[3]}):")
            render_stmts(s[4], ind + 1, out)
        elif k == "if":
            out.append(f"{pad}if {s[1]}:")
            render_stmts(s[2], ind + 1, out)
            if s[3]:
                out.append(f"{pad}else:")
                render_stmts(s[3], ind + 1, out)
        elif k == "alloc":
            dims = f"[{', '.join(s[3])}]" if s[3] else ""
            out.append(f"{pad}{s[1]}: {s[2]}{dims} @ {s[4]}")
        elif k == "window":
            acc = ", ".join(a[1] if a[0] == "pt" else f"{a[1]}:{a[2]}" for a in s[3])
            out.append(f"{pad}{s[1]} = {s[2]}[{acc}]")
        elif k == "call":
            out.append(f"{pad}{s[1]}({', '.join(s[2])})")
        elif k == "wcfg":
            out.append(f"{pad}{s[1]}.{s[2]} = {s[3]}")
        elif k == "pass":
            out.append(f"{pad}pass")
        else:
            raise ValueError(k)


def render_proc(p, decorator="@proc"):
    out = [decorator, f"def {p['name']}({', '.join(render_arg(a) for a in p['args'])}):"]
    for pr in p["preds"]:
        out.append(f"    assert {pr}")
    render_stmts(p["body"], 1, out)
    return "\n".join(out) + "\n"


def render_program(prog):
    parts = [CONFIG_PRELUDE] if prog.get("cfg") else []
    for c in prog["callees"]:
        parts.append(render_proc(c))
    parts.append(render_proc(prog["main"]))
    return "\n".join(parts)


def build(prog):
    """-> (env dict, Procedure main).  Raises whatever the front end raises."""
    from ..exoutil import exec_source

    env = exec_source(render_program(prog))
    return env, env[prog["main"]["name"]]
