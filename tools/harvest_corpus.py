#!/venv/bin/python
"""tools/harvest_corpus.py <seed-name>...: for each seeded change that a check caught
(/tmp/seedmx_<seed>.txt from tools/seed_matrix.sh), take the smallest replay it wrote, confirm that
it PASSES on the unchanged tree and store it as corpus/<PROP>/<seed>.json (expect: pass).  The
replay tier of every run then re-executes it in seconds: a regression of that kind is reported
without any search."""
import json, os, re, subprocess, sys

ROOT = os.path.dirname(os.path.dirname(os.path.abspath(__file__)))
for seed in sys.argv[1:]:
    prop = seed[:3]
    out = f"/tmp/seedmx_{seed}.txt"
    if not os.path.exists(out):
        print(seed, "no matrix output"); continue
    paths = re.findall(r"^VIOLATION property=\S+ replay=(\S+)", open(out).read(), re.M)
    paths = [p for p in paths if os.path.exists(os.path.join(ROOT, p))]
    if not paths:
        print(seed, "not caught / no replay"); continue
    paths.sort(key=lambda p: os.path.getsize(os.path.join(ROOT, p)))
    done = False
    for p in paths[:6]:
        r = subprocess.run(["./check", prop, "--replay", p], cwd=ROOT, capture_output=True, text=True)
        if not (r.returncode == 0 and "replay passed" in r.stdout):
            continue
        # ... and it must FAIL with the seeded change applied to the current tree
        m = subprocess.run(["tools/with_mutant.sh", f"seeded/{seed}/patch.diff", "--", "./check", prop, "--replay", p], cwd=ROOT, capture_output=True, text=True)
        if m.returncode == 1 and "VIOLATION" in m.stdout:
            rec = json.load(open(os.path.join(ROOT, p)))
            d = os.path.join(ROOT, "corpus", prop)
            os.makedirs(d, exist_ok=True)
            json.dump({"property": prop, "expect": "pass", "note": f"minimal case that exposes seeded change {seed} (passes on the unchanged tree)", "sig_under_mutant": rec.get("sig"), "case": rec["case"]}, open(os.path.join(d, seed + ".json"), "w"), indent=1)
            print(seed, "stored", p); done = True
            break
    if not done:
        print(seed, "replays do not pass on the unchanged tree (baseline violation?)", paths[:2])
