"""Structural validator V: independent well-formedness check over a LoopIR.proc."""
from __future__ import annotations

from exo.core.LoopIR import LoopIR, T


class Malformed(Exception):
    def __init__(self, kind, detail):
        super().__init__(f"{kind}: {detail}")
        self.kind, self.detail = kind, detail


def _rank(t):
    if isinstance(t, (T.Tensor, T.Window)):
        return len(t.shape())
    return 0


def validate(proc, check_types=True, depth=0):
    binders = {}  # id(sym) -> description, for every binder met on the current path
    all_binders = []

    def bind(env, sym, typ, what):
        if sym in env:
            raise Malformed("rebound-in-scope", f"{sym!r} ({what}) is bound again while an outer declaration is in scope")
        env = dict(env)
        env[sym] = typ
        all_binders.append((sym, what))
        return env

    def ctrl(e, env, what):
        t = getattr(e, "type", None)
        if t is not None and not isinstance(t, (T.Int, T.Index, T.Size, T.Stride, T.Bool)):
            raise Malformed("non-control-expr", f"{what}: {e} has type {t}")
        expr(e, env)

    def use(sym, env, what):
        if sym not in env:
            raise Malformed("use-out-of-scope", f"{sym!r} in {what} has no declaration in scope")
        return env[sym]

    def expr(e, env):
        if isinstance(e, LoopIR.Read):
            t = use(e.name, env, str(e))
            if t is not None and t.is_numeric():
                r = _rank(t)
                if e.idx and len(e.idx) != r:
                    raise Malformed("rank-mismatch", f"{e} indexes a rank-{r} buffer")
                if check_types and e.idx and r and e.type.is_real_scalar() and t.basetype() != e.type and not isinstance(e.type, T.Num) and not isinstance(t.basetype(), T.Num):
                    raise Malformed("type-annotation", f"read {e} annotated {e.type} but buffer is {t.basetype()}")
            for i in e.idx:
                ctrl(i, env, f"index of {e}")
        elif isinstance(e, LoopIR.BinOp):
            expr(e.lhs, env)
            expr(e.rhs, env)
        elif isinstance(e, LoopIR.USub):
            expr(e.arg, env)
        elif isinstance(e, LoopIR.Extern):
            for a in e.args:
                expr(a, env)
        elif isinstance(e, LoopIR.WindowExpr):
            t = use(e.name, env, str(e))
            if t is not None and len(e.idx) != _rank(t):
                raise Malformed("rank-mismatch", f"window {e} of rank-{_rank(t)} buffer")
            for w in e.idx:
                if isinstance(w, LoopIR.Point):
                    ctrl(w.pt, env, "window point")
                else:
                    ctrl(w.lo, env, "window lo")
                    ctrl(w.hi, env, "window hi")
        elif isinstance(e, LoopIR.StrideExpr):
            t = use(e.name, env, str(e))
            if t is not None and not (0 <= e.dim < _rank(t)):
                raise Malformed("rank-mismatch", f"{e}")
        elif isinstance(e, (LoopIR.Const, LoopIR.ReadConfig)):
            pass
        else:
            raise Malformed("unknown-expr", type(e).__name__)

    def typ_exprs(t, env, what):
        if isinstance(t, T.Tensor):
            for h in t.hi:
                try:
                    ctrl(h, env, f"extent of {what}")
                except Malformed as m:
                    if m.kind == "use-out-of-scope":
                        raise Malformed("use-out-of-scope-in-extent", f"extent of {what}: {m.detail}")
                    raise

    def stmts(block, env, where):
        if not isinstance(block, list):
            raise Malformed("bad-block", where)
        for s in block:
            if isinstance(s, (LoopIR.Assign, LoopIR.Reduce)):
                t = use(s.name, env, str(s).splitlines()[0])
                if t is None or not t.is_numeric():
                    raise Malformed("write-to-control", f"{s.name!r}")
                if len(s.idx) != _rank(t):
                    raise Malformed("rank-mismatch", f"write {s.name}{[str(i) for i in s.idx]} to rank-{_rank(t)} buffer")
                for i in s.idx:
                    ctrl(i, env, f"index of write to {s.name}")
                if check_types and t.basetype() != s.type and not isinstance(s.type, T.Num) and not isinstance(t.basetype(), T.Num):
                    raise Malformed("type-annotation", f"write to {s.name!r} annotated {s.type} but buffer is {t.basetype()}")
                expr(s.rhs, env)
            elif isinstance(s, LoopIR.WriteConfig):
                expr(s.rhs, env)
            elif isinstance(s, LoopIR.Pass):
                pass
            elif isinstance(s, LoopIR.If):
                ctrl(s.cond, env, "if condition")
                if len(s.body) == 0:
                    raise Malformed("empty-body", "if with empty body")
                stmts(s.body, env, "if-body")
                stmts(s.orelse, env, "if-orelse")
            elif isinstance(s, LoopIR.For):
                ctrl(s.lo, env, "loop lo")
                ctrl(s.hi, env, "loop hi")
                if len(s.body) == 0:
                    raise Malformed("empty-body", f"for {s.iter} with empty body")
                stmts(s.body, bind(env, s.iter, T.index, "loop iterator"), "for-body")
            elif isinstance(s, LoopIR.Alloc):
                typ_exprs(s.type, env, str(s.name))
                env = bind(env, s.name, s.type, "alloc")
            elif isinstance(s, LoopIR.Free):
                use(s.name, env, "free")
            elif isinstance(s, LoopIR.WindowStmt):
                if not isinstance(s.rhs, LoopIR.WindowExpr):
                    raise Malformed("bad-window-stmt", str(s))
                expr(s.rhs, env)
                env = bind(env, s.name, s.rhs.type, "window")
            elif isinstance(s, LoopIR.Call):
                f = s.f
                if len(s.args) != len(f.args):
                    raise Malformed("call-arity", f"{f.name}: {len(s.args)} actuals for {len(f.args)} formals")
                for a, fa in zip(s.args, f.args):
                    if fa.type.is_numeric():
                        if not isinstance(a, (LoopIR.Read, LoopIR.WindowExpr, LoopIR.ReadConfig)):
                            raise Malformed("call-arg-kind", f"{f.name}: numeric parameter {fa.name} given {type(a).__name__} {a}")
                        if isinstance(a, LoopIR.Read):
                            t = use(a.name, env, f"call {f.name}")
                            if t is not None and t.is_numeric():
                                ar = 0 if a.idx else _rank(t)
                                if a.idx and len(a.idx) != _rank(t):
                                    raise Malformed("rank-mismatch", f"call arg {a}")
                                if ar != _rank(fa.type):
                                    raise Malformed("call-arg-rank", f"{f.name}: {fa.name} expects rank {_rank(fa.type)}, given {a} of rank {ar}")
                            for i in a.idx:
                                ctrl(i, env, "call arg index")
                        else:
                            expr(a, env)
                            if isinstance(a, LoopIR.WindowExpr):
                                n_iv = sum(isinstance(w, LoopIR.Interval) for w in a.idx)
                                if n_iv != _rank(fa.type):
                                    raise Malformed("call-arg-rank", f"{f.name}: {fa.name} expects rank {_rank(fa.type)}, window {a} has rank {n_iv}")
                    else:
                        ctrl(a, env, f"call {f.name} control arg")
                if depth < 3:
                    validate(f, check_types, depth + 1)
            else:
                raise Malformed("unknown-stmt", type(s).__name__)
        return env

    env = {}
    for a in proc.args:
        if a.name in env:
            raise Malformed("rebound-in-scope", f"argument {a.name!r} declared twice")
        env[a.name] = a.type
    for a in proc.args:
        typ_exprs(a.type, env, str(a.name))
    for p in proc.preds:
        ctrl(p, env, "assertion")
    stmts(proc.body, env, "proc-body")
    return True
