RULE = (
    "Hypothesis draws a program from G (all statement kinds, else branches, calls with window arguments, repeated and shadowed "
    "names) and a pattern DERIVED FROM THE PROGRAM: a drawn statement or expression node is rendered with base names, drawn "
    "sub-terms are replaced by holes '_' (index holes, right-hand-side holes, body holes), optionally '#n' is appended; plus the "
    "name shorthands find_loop('i #k') / find_alloc_or_arg, and patterns taken from a node that was then perturbed (other name / "
    "other constant) so that 'no match' occurs. Oracle: an independent structural comparator over the LoopIR (same constructor, "
    "names compared by base name, constants/operators equal, holes match anything, '_' bodies match any body) walked in pre-order "
    "gives the reference list; find_all must return exactly that list, in program order, without duplicates and containing the "
    "source node; find = first; '#n' = n-th; an out-of-range '#n' or an empty reference list must raise SchedulingError. "
    "Navigation laws are checked exhaustively for every statement position: next/prev inverse, before/after .anchor(), "
    "parent().body()/orelse()[i], as_block()[0], slicing vs expand, iteration = indexing, InvalidCursor at the edges and above "
    "the top level. Non-trivial: pattern with >=1 hole and >=2 reference matches, or a match inside an else branch / call "
    "argument / window expression. Distinct = digest(program, pattern)."
)
ASSUMPTIONS = [
    "index-count mismatches are ignored by design ('x[_]' matches any rank): candidates of different rank are tallied, not judged",
    "names match by base name (str(Sym)), as documented for pattern strings",
]
BOUNDS = {"patterns_per_program": 6}
