"""C04 - scheduling never breaks safety or well-formedness."""
from __future__ import annotations

import json

from ..common import Violation, Skip, run_cases, guarded
from .. import sched
from ..validate import validate, Malformed
from ..eqcheck import run_outcome, CFG_TYPES
from ..interp import POISON
from . import c01

PROP = "C04"
NVALS = 6
STORAGE = {
    "expand_dim": 6, "resize_dim": 6, "stage_mem": 8, "lift_alloc": 6, "sink_alloc": 5, "autolift_alloc": 3,
    "reuse_buffer": 5, "delete_buffer": 3, "fission": 6, "autofission": 3, "specialize": 5, "unroll_loop": 6,
    "unroll_buffer": 5, "divide_dim": 5, "mult_dim": 5, "rearrange_dim": 4, "inline": 6, "extract_subproc": 4,
    "bind_expr": 4, "inline_window": 4, "cut_loop": 4, "divide_loop": 5, "reorder_stmts": 4, "std.auto_stage_mem": 3,
}


def binder_table(ir):
    from exo.core.LoopIR import LoopIR

    out = []

    def walk(block, path):
        for i, s in enumerate(block):
            if isinstance(s, LoopIR.Alloc):
                out.append(("alloc", str(s.name), str(s.type), path))
            elif isinstance(s, LoopIR.WindowStmt):
                out.append(("win", str(s.name), path))
            elif isinstance(s, LoopIR.For):
                out.append(("for", str(s.iter), path))
                walk(s.body, path + "f")
            elif isinstance(s, LoopIR.If):
                walk(s.body, path + "t")
                walk(s.orelse, path + "e")
            elif isinstance(s, LoopIR.Call):
                out.append(("call", str(s.f.name), path))

    walk(ir.body, "")
    return sorted(map(str, out))


def compile_check(q, desc):
    from exo.core.memory import MemGenError
    from exo.core.configs import ConfigError

    try:
        q.c_code_str()
    except (TypeError, MemGenError, ConfigError, NotImplementedError):
        return "rejected"
    except (KeyboardInterrupt, SystemExit, MemoryError):
        raise
    except BaseException as e:  # noqa
        import traceback

        tb = traceback.extract_tb(e.__traceback__)
        where = f"{tb[-1].filename.split('/')[-1]}:{tb[-1].name}" if tb else "?"
        raise Violation(
            {"op": desc["op"], "kind": "compile-internal-error", "exc": f"{type(e).__name__}@{where}"},
            f"{json.dumps(desc, default=str)}: c_code_str() of the derived procedure raised {type(e).__name__}: {str(e)[:300]}\n{c01.safe_str(q)}",
        )
    return "ok"


class _State:
    moved = False


def after_step(p, q, desc, k, live, env):
    irq = q.INTERNAL_proc()
    try:
        str(q)
    except Exception as e:
        raise Violation({"op": desc["op"], "kind": "unprintable"}, f"{json.dumps(desc, default=str)}: str() of the derived procedure raised {type(e).__name__}: {str(e)[:300]}\nbefore:\n{c01.safe_str(p)}")
    try:
        validate(irq)
    except Malformed as m:
        raise Violation(
            {"op": desc["op"], "kind": "malformed:" + m.kind},
            f"{json.dumps(desc, default=str)}: derived procedure is not well-formed: {m}\nbefore:\n{c01.safe_str(p)}\nafter:\n{c01.safe_str(q)}",
        )
    compile_check(q, desc)
    if binder_table(p.INTERNAL_proc()) != binder_table(irq):
        _State.moved = True


def check_case(case):
    _State.moved = False
    info = c01.check_schedule(case, PROP, NVALS, after_step=after_step, unsafe_is_violation=True)
    info["nontrivial"] = _State.moved
    info["classes"].append("binders-changed" if _State.moved else "binders-same")
    return info


def run(ctx):
    global NVALS
    c01.CTX = ctx
    NVALS = 5 if ctx.tier == "quick" else 10
    names = sched.op_names(weights=dict(STORAGE, **{"group:stdlib": 1, "group:config": 0}))
    names = [n for n in names]
    strat = c01.case_strategy(4 if ctx.tier == "quick" else 8, names, max_stmts=10 if ctx.tier == "quick" else 14)
    from ..common import run_systematic
    from ..gen.templates import distinct_step_cases

    val = {"fill": 1, "layout": 2, "cfg": [3, 5, 1, 2, 4], "pick": 7}
    quick = ctx.tier == "quick"
    sys_ops = [n for n in set(names) if sched.OPS[n]["group"] in ("storage", "loop", "core")]
    run_systematic(ctx, distinct_step_cases(ctx.shard, ctx.nshards, sys_ops, val, params=(0, 1) if quick else (0, 1, 2, 3, 5, 7)), guarded(ctx, check_case), keep_one_in=(lambda c: 1 if sched.OPS[c["steps"][0][0]]["group"] == "storage" or c["steps"][0][0] in ("extract_subproc", "inline", "inline_window", "fission", "lift_scope", "unroll_loop") else 5) if quick else 1, label="template-single-steps", presharded=True)
    run_cases(ctx, strat, guarded(ctx, check_case), ctx.budget(640, 5120))
