RULE = (
    "Hypothesis draws a program from G with colliding name pools (iterators i/j/k/ii, buffers a/a_1/t/tmp/w drawn with "
    "replacement, so shadowing, sibling reuse and textual coincidences such as a real 'a_1' next to a renamed 'a' are common), "
    "raw and after 1-6 accepted steps of the ops that duplicate or invent names (unroll_loop, inline, cut_loop, divide_loop with "
    "colliding new names, stage_mem, unroll_buffer, specialize, bind_expr, fission, extract_subproc, expand_dim, add_loop...). "
    "Oracle: (1) scope-injectivity: the LoopIR and the Python AST of the PRINTED text are walked in lockstep (statements and "
    "expressions; a shape mismatch = wrong parenthesisation/operator/argument order), every binder and every use site yields a "
    "(Sym, printed identifier) pair; one identifier standing for two different Syms that are visible in overlapping scopes, or "
    "one Sym shown under two identifiers, is a violation; (2) round trip: the printed text (callees first) is parsed again with the "
    "real @proc front end -> it must be accepted (bounds-check rejections are tallied, not judged), print identically (fixpoint) "
    "and behave identically in the reference interpreter (exact) on admissible inputs. Non-trivial: >=2 distinct Syms share a "
    "base name within one scope chain. Distinct = digest(printed text)."
)
ASSUMPTIONS = ["Exo's surface syntax is a subset of Python's, so ast.parse gives the reading a user (and the parser) gets"]
BOUNDS = {"steps": "0..6", "valuations_per_case": 4}
