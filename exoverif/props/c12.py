"""C12 - simplify preserves the value of every index expression."""
from __future__ import annotations

import json
from collections import Counter

from hypothesis import strategies as st

from ..common import Violation, Skip, run_cases, guarded, rejection_types
from ..gen.templates import programs_or_templates
from ..gen.programs import programs, build, render_program
from .. import sched
from ..interp import Listener, Unsafe, InterpLimit
from ..inputs import run_proc
from ..eqcheck import ctrl_valuations, initial_config, CFG_TYPES
from .c01 import safe_str

PROP = "C12"
CTX = None
NORMALISERS = ["simplify", "simplify", "simplify", "std.cleanup", "halide.simplify_with_preds", "divide_loop_perfect"]
PREP = ["divide_loop", "cut_loop", "shift_loop", "unroll_loop", "fission", "specialize", "reorder_loops", "mult_loops", "lift_scope", "add_loop", "inline", "stage_mem", "expand_dim", "divide_dim", "inline_window", "bind_expr", "fuse", "join_loops"]


class Trace(Listener):
    def __init__(self):
        self.events = []
        self.reads = []
        self.alloc_ids = {}

    def key(self, buf):
        if buf.is_arg:
            return "arg:" + buf.name
        return "alloc#%d" % self.alloc_ids.setdefault(buf.bid, len(self.alloc_ids))

    def access(self, kind, buf, flat, node):
        if kind == "r":
            self.reads.append((self.key(buf), flat))
        else:
            self.events.append(("st", kind, self.key(buf), flat, tuple(self.reads)))
            self.reads = []

    def config(self, kind, cfg, field, val, node):
        if kind == "w":
            self.events.append(("cfgw", cfg, field, str(val), tuple(self.reads)))
            self.reads = []
        else:
            self.reads.append(("cfg:" + cfg + "." + field, 0))

    def alloc(self, s, buf):
        self.alloc_ids.setdefault(buf.bid, len(self.alloc_ids))
        self.events.append(("alloc", len(buf.data)))

    def call_enter(self, s):
        pass


def trace_of(ir, fv):
    t = Trace()
    try:
        run_proc(ir, fv, listener=t, max_steps=30000, cfg_types=CFG_TYPES)
    except Unsafe as u:
        return None, u
    except (InterpLimit, RecursionError):
        return None, None
    return t.events, None


def compare_traces(a, b):
    """a: original events, b: after normalisation. -> None | (kind, detail)"""
    # allocation events of never-used buffers may vanish (dead allocs are not removed by
    # simplify, but dead loops containing them are): compare stores/config writes strictly,
    # allocation extents as a multiset inclusion
    sa = [e for e in a if e[0] != "alloc"]
    sb = [e for e in b if e[0] != "alloc"]
    for k, (x, y) in enumerate(zip(sa, sb)):
        if x[:4] != y[:4]:
            return ("store-sequence-differs", f"event #{k}: original {x[:4]}, simplified {y[:4]}")
        rx, ry = Counter(x[4]), Counter(y[4])
        extra = ry - rx
        if extra:
            return ("read-location-differs", f"store #{k} {x[1:4]}: simplified version reads {dict(extra)} which the original statement does not read (original reads {dict(rx)})")
    if len(sa) != len(sb):
        longer = sa if len(sa) > len(sb) else sb
        return ("store-count-differs", f"original performs {len(sa)} stores, simplified {len(sb)}; first unmatched: {longer[min(len(sa), len(sb))][:4]}")
    ea, eb = Counter(e[1] for e in a if e[0] == "alloc"), Counter(e[1] for e in b if e[0] == "alloc")
    if eb - ea:
        return ("alloc-extent-differs", f"simplified allocates extents {dict(eb - ea)} not allocated by the original ({dict(ea)})")
    return None


def has_interesting_control(prog):
    s = json.dumps(prog["main"]["body"])
    return any(t in s for t in (" / ", " % ", " - ", '"if"'))


def check_case(case):
    try:
        env, p0 = build(case["prog"])
    except rejection_types():
        raise Skip("frontend-reject")
    sctx = sched.SchedCtx(env)
    p = p0
    prep = []
    for step in case["prep"]:
        q, outcome, desc = sched.apply_step_excl(PROP, p, step, sctx)
        if outcome == "accepted":
            p = q
            desc.pop("err", None)
            prep.append(desc)
    norm = case["norm"]
    if norm[0] == "divide_loop_perfect":
        # divide_loop(perfect=True) relies on the normaliser to prove divisibility
        import exo.stdlib.scheduling as S

        ir = p.INTERNAL_proc()
        st_, _ = sched.collect(ir)
        loops = [s for s in st_ if s.kind == "For"]
        if not loops:
            raise Skip("no-loop")
        site = loops[norm[1] % len(loops)]
        from ..findings import excluded_step

        if excluded_step(PROP, ["divide_loop", 0, 0, 0], p):
            raise Skip("excluded-known-finding")
        qf = [2, 4, 3][norm[2] % 3]
        try:
            q = S.divide_loop(p, sched.cursor_at(p, site.path), qf, ["do", "di"], perfect=True)
        except rejection_types():
            raise Skip("normaliser-rejected")
        desc = {"op": "divide_loop", "perfect": True, "q": qf, "loop": sched.path_str(site.path)}
    else:
        q, outcome, desc = sched.apply_step_excl(PROP, p, [norm[0], norm[1], norm[2], 0], sctx)
        if CTX is not None and outcome != "noop":
            CTX.op(norm[0], outcome)
        if outcome != "accepted":
            raise Skip("normaliser-" + outcome)
    ir_p, ir_q = p.INTERNAL_proc(), q.INTERNAL_proc()
    v = case["val"]
    vals, total = ctrl_valuations(ir_p, limit=NVALS, pick=v["pick"])
    if not vals:
        raise Skip("no-admissible-input")
    cfg0 = initial_config(v["cfg"], present=case["prog"].get("cfg", False))
    sp, sq = safe_str(p), safe_str(q)
    n_ok = 0
    classes = []
    for c in vals:
        fv = {"ctrl": c, "fill": v["fill"], "layout": v["layout"], "config": cfg0}
        ta, ua = trace_of(ir_p, fv)
        if ta is None:
            classes.append("input-unsafe-or-long")
            continue
        tb, ub = trace_of(ir_q, fv)
        if tb is None:
            if ub is None:
                continue
            raise Violation(
                {"op": desc["op"], "kind": "unsafe:" + ub.kind},
                f"{json.dumps(desc, default=str)} after {json.dumps(prep, default=str)}: input {json.dumps(fv)}\n{ub}\n--- before:\n{sp}\n--- after:\n{sq}",
            )
        bad = compare_traces(ta, tb)
        if bad:
            raise Violation(
                {"op": desc["op"], "kind": bad[0]},
                f"{json.dumps(desc, default=str)} after {json.dumps(prep, default=str)}: input {json.dumps(fv)}\n{bad[1]}\n--- before:\n{sp}\n--- after:\n{sq}",
            )
        n_ok += 1
    if n_ok == 0:
        raise Skip("no-runnable-input")
    changed = sp != sq
    return {
        "nontrivial": changed and has_interesting_control(case["prog"]),
        "digest": {"p": render_program(case["prog"]), "prep": prep, "norm": desc},
        "classes": classes[:1] + ["changed" if changed else "unchanged", "norm:" + desc["op"], f"prep={len(prep)}", f"vals={min(n_ok, 40)//10*10}+"],
        "sample": {"before": sp, "after": sq, "normaliser": desc, "valuations": n_ok},
    }


NVALS = 40


def case_strategy():
    prep = st.tuples(st.sampled_from(PREP), st.integers(0, 40), st.integers(0, 23), st.integers(0, 47)).map(list)
    return st.fixed_dictionaries(
        {
            "prog": programs_or_templates(15, max_stmts=9, configs=True, config_pct=15, externs=False),
            "prep": st.lists(prep, min_size=0, max_size=2),
            "norm": st.tuples(st.sampled_from(NORMALISERS), st.integers(0, 20), st.integers(0, 5)).map(list),
            "val": st.fixed_dictionaries(
                {"fill": st.integers(0, 3), "layout": st.integers(0, 5), "cfg": st.lists(st.integers(0, 20), min_size=5, max_size=5), "pick": st.integers(0, 50)}
            ),
        }
    )


def divmod_cases():
    """systematic family  x[(a*j + b*i + c) op d + off]  under  for i in seq(lo, hi): for j in seq(0, 3)
    -- every branch of the division / modulo normaliser (divisible terms, provably small
    remainders, negative and >= d constants, composite divisors)"""
    val = {"fill": 1, "layout": 0, "cfg": [0, 0, 0, 0, 0], "pick": 0}
    for op in ("/", "%"):
        for d in (2, 3, 4, 6, 8, 16):
            for a in (0, 2, 3, 4, 8, 9):
                for b in (0, 1, -1, 3):
                    if a == 0 and b == 0:
                        continue
                    for c in (-5, -4, -1, 0, 1, 3, 5, 7, 9):
                        for lo, hi in ((0, 3), (1, 4), (2, 5), (0, 8), (1, 2)):
                            terms = []
                            if a:
                                terms.append(f"{a} * j")
                            if b:
                                terms.append("i" if b == 1 else ("-i" if b == -1 and not terms else (f"{b} * i" if b > 0 else "- i")))
                            e = " + ".join(terms).replace("+ - i", "- i")
                            if c:
                                e += f" + {c}" if c > 0 else f" - {-c}"
                            # smallest value over the iteration space, to keep the subscript in range
                            vals = [(a * j + b * i + c) // d if op == "/" else (a * j + b * i + c) % d for i in range(lo, hi) for j in range(3)]
                            off = -min(vals)
                            ext = max(vals) + off + 1
                            idx = f"({e}) {op} {d}" + (f" + {off}" if off else "")
                            prog = {
                                "prec": "f32", "cfg": False, "callees": [],
                                "main": {"name": "foo", "args": [{"name": "x", "kind": "tensor", "prec": "f32", "dims": [str(ext)], "mem": "DRAM"}], "preds": [],
                                         "body": [["for", "i", str(lo), str(hi), [["for", "j", "0", "3", [["reduce", "x", [idx], "1.0"]], "seq"]], "seq"]]},
                            }
                            yield {"prog": prog, "prep": [], "norm": ["simplify", 0, 0], "val": val}


def run(ctx):
    global CTX
    CTX = ctx
    from ..common import run_systematic

    run_systematic(ctx, divmod_cases(), guarded(ctx, check_case), keep_one_in=12 if ctx.tier == "quick" else 1, label="systematic-divmod")
    run_cases(ctx, case_strategy(), guarded(ctx, check_case), ctx.budget(2400, 40000))
