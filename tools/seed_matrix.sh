#!/bin/sh
# tools/seed_matrix.sh [tier] [seed-dir-names...]: run each seeded change against the check of its
# property (scratch copy of /repo/src + patch, PYTHONPATH), record the outcome in
# seeded/<name>/detect.json.  Evidence of these runs goes to /tmp (VERIF_EVIDENCE_DIR).
tier="${1:-quick}"; shift 2>/dev/null
cd /verif
names="$@"; [ -z "$names" ] && names=$(ls seeded)
for item in $names; do
  # "<seed>" runs the check of the seed's own property; "<seed>:<PROP>" runs another property's check
  s=$(echo $item | cut -d: -f1)
  [ -f seeded/$s/patch.diff ] || continue
  p=$(echo $s | cut -c1-3)
  det=detect.json
  case "$item" in *:*) p=$(echo $item | cut -d: -f2); det=detect_$p.json;; esac
  out=/tmp/seedmx_${s}_$p.txt; [ "$det" = detect.json ] && out=/tmp/seedmx_${s}.txt
  t0=$(date +%s)
  tools/with_mutant.sh seeded/$s/patch.diff -- ./check $p --tier $tier > $out 2>&1; rc=$?
  t1=$(date +%s)
  nv=$(grep -c "^VIOLATION" $out)
  first=$(grep -A1 "^VIOLATION" $out | sed -n 2p | cut -c1-200 | tr '"' "'" | tr '\\' '/')
  summ=$(grep -E "^$p tier" $out | cut -c1-200)
  printf '{"seed": "%s", "property": "%s", "tier": "%s", "exit": %d, "violations": %d, "wall_s": %d, "summary": "%s", "first_violation": "%s"}\n' "$s" "$p" "$tier" "$rc" "$nv" "$((t1-t0))" "$summ" "$first" > seeded/$s/$det
  echo "$item exit=$rc violations=$nv wall=$((t1-t0))s"
done
