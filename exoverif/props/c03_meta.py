RULE = (
    "Hypothesis draws a program from G in boundary mode: a construction that is in bounds by design plus 0-2 perturbations "
    "(+-1 on an index expression, loop hi+1 / lo-1 / swapped bounds, dropped guard, widened or shifted window, shrunk allocation, "
    "swapped or duplicated call arguments, strengthened callee assertion, size argument 0 at a call), so both verdicts occur. "
    "Only for programs that @proc ACCEPTS: all admissible control inputs in the box (sizes 1..5, index args -5..5, both bools; "
    "<=60 per program, several window layouts incl. padded/strided/column-major) are enumerated and the reference interpreter runs "
    "with all monitors: access outside a buffer's extent, access outside a window's extent, loop with hi < lo, at a call: callee "
    "assertion false, size argument < 1, actual shape != signature shape, one allocation reaching two numeric parameters, "
    "non-positive allocation size, stride assertion false. Any monitor event on an accepted program = violation (class "
    "recorded). Rejections are never violations. Non-trivial: accepted program with >=1 access whose index depends on an "
    "argument or loop variable and >=1 of {guard, window, call, div/mod, non-zero lo}. Distinct = digest(program text)."
)
ASSUMPTIONS = ["monitors implement exactly the clauses of the property statement; creating (not accessing) an out-of-range window is not an event"]
BOUNDS = {"sizes": "1..5", "index_args": "-5..5", "inputs_per_program": 60}
