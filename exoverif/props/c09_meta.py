RULE = (
    "Two generators, mixed: (1) pattern programs with par loops at depth 0-3 (top level, inside seq loops, inside if, inside a "
    "callee, par inside par) whose bodies are drawn from a pool: disjoint x[i], neighbour read x[i+1], many-to-one x[i/2] / "
    "x[i%2], scalar or x[0] assign and reduce, read-then-reduce (y[i] = x[i+1]; x[i] += 1), private allocation inside the "
    "iteration vs shared temporary outside, config write in the body, callee with a hidden write through a window, read-only "
    "shared data; (2) sequential programs from G with parallelize_loop applied to a drawn loop. If compile_procs_to_strings "
    "SUCCEEDS, the reference interpreter executes the procedure on admissible inputs (sizes 1..5) and records for every dynamic "
    "instance of every par loop the per-iteration sets of written, reduced and read locations (allocation id + element, config "
    "fields), excluding allocations created inside the iteration. Violation: two different iterations i != j with "
    "(W_i u Red_i) n (R_j u W_j u Red_j) non-empty; additionally executing par loops in reverse order must reproduce the "
    "sequential final state. Compile failure is always acceptable. Non-trivial: a compiled par loop that executes >=2 iterations "
    "touching >=1 non-private location. Distinct = digest(program text)."
)
ASSUMPTIONS = [
    "races are decided over location sets in the reference semantics; real OpenMP interleavings are not observed (the harness does not own the schedule)",
]
BOUNDS = {"sizes": "1..5", "par_depth": "0..3"}
