RULE = (
    "Hypothesis draws a program from G (all precisions incl. f16/i8/ui8/ui16/i32/f64/R, DRAM/DRAM_STACK/DRAM_STATIC allocations, "
    "window and dense arguments, callees with window/scalar/size/index/bool parameters, configs, externs, div/mod indices with "
    "negative intermediates, shadowed names) and 0-3 schedule steps. The procedure (as written and after the accepted steps) is "
    "compiled by the tree under test, a driver is generated from the Exo signature (documented ABI), built with gcc -O1 + "
    "ASan/UBSan and executed on admissible inputs (<=3 control valuations: sizes 1..6, negative index args, strided/padded/"
    "column-major window layouts, initial config). Oracle: every element of every argument's BACKING array (so writes outside "
    "the window are seen), by-reference scalars and every context-struct field must equal what the reference interpreter "
    "(machine domain) computes from the LoopIR; bit-exact for small-integer data, relative tolerance 1e-5 (f32) / 1e-12 (f64) / "
    "4e-3 (f16) only where data division or libm is involved. Non-trivial: the run stores >=1 element and the C text shows >=1 of "
    "{window struct, strides[], exo_floor_div, %, callee call, scalar by reference, cast, config field, renamed variable}. "
    "Distinct = digest(program, accepted steps)."
)
ASSUMPTIONS = [
    "gcc 12 -O1 -ffp-contract=off implements C11 semantics; small-integer data make +,-,* exact in every precision",
    "inputs on which the interpreter trips a safety monitor are excluded (C03); sanitizer reports are C08's verdict and tallied here",
]
BOUNDS = {"valuations_per_program": 3, "steps": "0..3"}
