"""C19 - signature- and annotation-changing utilities keep the loop nest."""
from __future__ import annotations

import json

from hypothesis import strategies as st

from exo.core.LoopIR import LoopIR, T

from ..common import Violation, Skip, run_cases, guarded, rejection_types
from ..gen.programs import programs, build, render_program
from .. import sched
from ..interp import Interp, Unsafe, InterpLimit, POISON, ExactDomain, View
from ..inputs import build_args, arg_kinds
from ..eqcheck import ctrl_valuations, run_outcome, compare_outcomes, initial_config, CFG_TYPES, did_store
from .c01 import safe_str

PROP = "C19"
CTX = None
UTILS = ["partial_eval", "partial_eval", "transpose", "add_assertion", "rename", "make_instr", "set_precision", "set_memory", "set_window", "parallelize_loop"]
PRECS = ["f32", "f64", "i8", "i32", "ui8", "ui16", "f16"]


def run_with_args(ir, args, cfg):
    it = Interp(ExactDomain(), cfg, max_steps=30000)
    it.run(ir, args)
    return it.config


def check_case(case):
    import exo.stdlib.scheduling as S
    from exo.libs.memories import DRAM_STATIC, DRAM_STACK, MDRAM
    from exo import DRAM

    try:
        env, p = build(case["prog"])
    except rejection_types():
        raise Skip("frontend-reject")
    ir = p.INTERNAL_proc()
    u, k1, k2, k3 = case["util"]
    v = case["val"]
    vals, total = ctrl_valuations(ir, limit=8, pick=v["pick"])
    if not vals:
        raise Skip("no-admissible-input")
    cfg0 = initial_config(v["cfg"], present=case["prog"].get("cfg", False))
    fvs = [{"ctrl": c, "fill": v["fill"], "layout": v["layout"], "config": cfg0, "plain": True} for c in vals]
    kinds = arg_kinds(ir)
    ctrl_names = [n for n, k, t in kinds if k in ("size", "index", "bool")]
    desc = {"util": u}
    uses = False
    try:
        if u == "partial_eval":
            if not ctrl_names:
                raise Skip("no-control-args")
            base = vals[k3 % len(vals)]
            if k2 % 3 == 0:
                # positional prefix form: only if the leading arguments are control args
                lead = []
                for n, k, t in kinds:
                    if k in ("size", "index", "bool"):
                        lead.append(n)
                    else:
                        break
                if not lead:
                    raise Skip("no-leading-control-args")
                sub = lead[: 1 + k1 % len(lead)]
                q = p.partial_eval(*[base[n] for n in sub])
                desc["form"] = "positional"
            else:
                mask = 1 + k1 % (2 ** len(ctrl_names) - 1)
                sub = [n for i, n in enumerate(ctrl_names) if mask >> i & 1]
                q = p.partial_eval(**{n: base[n] for n in sub})
                desc["form"] = "keyword"
            desc["fixed"] = {n: base[n] for n in sub}
            irq = q.INTERNAL_proc()
            left = [str(a.name) for a in irq.args]
            want = [n for n, k, t in kinds if n not in sub]
            if left != want:
                raise Violation({"util": u, "kind": "signature"}, f"partial_eval({desc['fixed']}) leaves arguments {left}, expected {want}\n{safe_str(p)}\n->\n{safe_str(q)}")
            body_s = str(ir.body)
            uses = any(n in body_s for n in sub)
            n_cmp = 0
            stores = False
            for fv in fvs:
                if any(fv["ctrl"][n] != base[n] for n in sub):
                    continue
                o0 = run_outcome(ir, fv, cfg_types=CFG_TYPES)
                if o0.unsafe is not None or o0.limit:
                    continue
                fv2 = dict(fv, ctrl={n: x for n, x in fv["ctrl"].items() if n not in sub})
                o1 = run_outcome(irq, fv2, cfg_types=CFG_TYPES)
                bad = compare_outcomes(o0, o1, tol=None)
                if not bad and o1.bufs is not None:
                    # and the other direction: nothing more defined/different in the original
                    bad = compare_outcomes(o1, o0)
                if bad:
                    raise Violation({"util": u, "kind": bad[0]}, f"partial_eval({desc['fixed']}, {desc['form']}) on input {json.dumps(fv)}: {bad[1]}\n--- original:\n{safe_str(p)}\n--- partially evaluated:\n{safe_str(q)}")
                n_cmp += 1
                stores = stores or did_store(o0, fv, ir)
            if n_cmp == 0:
                raise Skip("no-comparable-input")
            return info(case, desc, uses and stores, p, q)
        if u == "transpose":
            cands = [(i, n) for i, (n, k, t) in enumerate(kinds) if k in ("tensor", "window") and len(t.shape()) == 2]
            if not cands:
                raise Skip("no-2d-arg")
            ai, an = cands[k1 % len(cands)]
            q = p.transpose(p.args()[ai])
            desc["arg"] = an
            irq = q.INTERNAL_proc()
            n_cmp = 0
            stores = False
            for fv in fvs:
                try:
                    a0, b0 = build_args(ir, fv)
                    a1, b1 = build_args(irq, fv)
                except Unsafe:
                    continue
                v0, v1 = a0[an], a1[an]
                if tuple(v1.shape) != (v0.shape[1], v0.shape[0]):
                    raise Violation({"util": u, "kind": "signature"}, f"transpose({an}): shape {v0.shape} became {v1.shape}")
                same_memory = bool(v0.is_win and v1.is_win)
                if same_memory:
                    # a window argument: hand the transposed procedure the SAME memory viewed as the
                    # transpose (shape and strides swapped) - stride(a, d) then has to follow too
                    from ..interp import Buffer

                    nb = Buffer(len(v0.buf.data), an, v0.buf.typ, is_arg=True)
                    nb.data[:] = list(v0.buf.data)
                    v1 = View(nb, v0.off, (v0.strides[1], v0.strides[0]), (v0.shape[1], v0.shape[0]), True)
                    a1[an] = v1
                    b1[an] = nb
                    desc["view"] = "same-memory-transposed-view"
                else:
                    for i in range(v0.shape[0]):
                        for j in range(v0.shape[1]):
                            v1.buf.data[v1.flat((j, i))] = v0.buf.data[v0.flat((i, j))]
                cfg = {}
                for kk, x in cfg0.items():
                    c, f = kk.split(".")
                    cfg[(c, f)] = ExactDomain().from_input(x, None) if CFG_TYPES.get((c, f)) == "data" and not isinstance(x, bool) else x
                try:
                    c0 = run_with_args(ir, a0, dict(cfg))
                except (Unsafe, InterpLimit):
                    continue
                try:
                    c1 = run_with_args(irq, a1, dict(cfg))
                except Unsafe as e:
                    raise Violation({"util": u, "kind": "unsafe:" + e.kind}, f"transpose({an}) on input {json.dumps(fv)}: {e}\n--- original:\n{safe_str(p)}\n--- transposed:\n{safe_str(q)}")
                except InterpLimit:
                    continue
                for n in b0:
                    if n == an and same_memory:
                        for f, (x, y) in enumerate(zip(v0.buf.data, v1.buf.data)):
                            if x is not POISON and x != y:
                                raise Violation({"util": u, "kind": "buffer-mismatch"}, f"transpose({an}) on input {json.dumps(fv)} (same memory, transposed view): backing[{f}] = {x} after the original, {y} after the transposed procedure\n--- original:\n{safe_str(p)}\n--- transposed:\n{safe_str(q)}")
                    elif n == an:
                        for i in range(v0.shape[0]):
                            for j in range(v0.shape[1]):
                                x, y = v0.buf.data[v0.flat((i, j))], v1.buf.data[v1.flat((j, i))]
                                if x is not POISON and x != y:
                                    raise Violation({"util": u, "kind": "buffer-mismatch"}, f"transpose({an}) on input {json.dumps(fv)}: {an}[{i},{j}] = {x} but transposed[{j},{i}] = {y}\n--- original:\n{safe_str(p)}\n--- transposed:\n{safe_str(q)}")
                    else:
                        for f, (x, y) in enumerate(zip(b0[n].data, b1[n].data)):
                            if x is not POISON and x != y:
                                raise Violation({"util": u, "kind": "buffer-mismatch"}, f"transpose({an}) on input {json.dumps(fv)}: other argument {n} flat[{f}] {x} vs {y}\n--- original:\n{safe_str(p)}\n--- transposed:\n{safe_str(q)}")
                if c0 != c1:
                    raise Violation({"util": u, "kind": "config-mismatch"}, f"transpose({an}): config {c0} vs {c1}")
                n_cmp += 1
                stores = True
            if n_cmp == 0:
                raise Skip("no-comparable-input")
            uses = an in str(ir.body)
            return info(case, desc, uses and stores, p, q)
        if u == "add_assertion":
            if not ctrl_names:
                raise Skip("no-control-args")
            n = ctrl_names[k1 % len(ctrl_names)]
            kind = dict((a, b) for a, b, c in kinds)[n]
            pred = [f"{n} > 1", f"{n} % 2 == 0", f"{n} <= 3", f"{n} == 2", f"{n} >= 0"][k2 % 5] if kind != "bool" else ["{n} == True", "{n} == False"][k2 % 2].format(n=n)
            q = p.add_assertion(pred)
            desc["pred"] = pred
            irq = q.INTERNAL_proc()
            if len(irq.preds) != len(ir.preds) + 1 or any(a is not b for a, b in zip(ir.preds, irq.preds)):
                raise Violation({"util": u, "kind": "preds-not-superset"}, f"add_assertion({pred!r}): preds {[str(x) for x in ir.preds]} -> {[str(x) for x in irq.preds]}")
            uses = True
        elif u == "rename":
            q = S.rename(p, f"renamed{k1}")
            uses = True
        elif u == "make_instr":
            q = S.make_instr(p, "/* instr {x_data} */", "")
            uses = True
        elif u in ("set_precision", "set_memory", "set_window"):
            st_, _ = sched.collect(ir)
            bufs = [n for n, k, t in kinds if k in ("scalar", "tensor", "window")]
            allocs = [str(s.node.name) for s in st_ if s.kind == "Alloc"]
            if u == "set_window":
                cand = [n for n, k, t in kinds if k in ("tensor", "window")]
            else:
                cand = bufs + allocs
            if not cand:
                raise Skip("no-target")
            b = cand[k1 % len(cand)]
            desc["buf"] = b
            if u == "set_precision":
                desc["prec"] = PRECS[k2 % len(PRECS)]
                q = S.set_precision(p, b, desc["prec"])
            elif u == "set_memory":
                m = [DRAM, DRAM_STATIC, DRAM_STACK, MDRAM][k2 % 4]
                desc["mem"] = m.name()
                q = S.set_memory(p, b, m)
            else:
                desc["win"] = bool(k2 % 2)
                q = S.set_window(p, b, desc["win"])
                for fv in fvs:
                    fv["dense"] = True
            uses = b in str(ir.body)
        elif u == "parallelize_loop":
            st_, _ = sched.collect(ir)
            loops = [s for s in st_ if s.kind == "For"]
            if not loops:
                raise Skip("no-loop")
            site = loops[k1 % len(loops)]
            q = S.parallelize_loop(p, sched.cursor_at(p, site.path))
            desc["loop"] = sched.path_str(site.path)
            uses = True
        else:
            raise Skip("unknown-util")
    except rejection_types() as e:
        if CTX is not None:
            CTX.op(u, "rejected")
        raise Skip("utility-rejected")
    if CTX is not None:
        CTX.op(u, "accepted")
    irq = q.INTERNAL_proc()
    def sig(x):
        return [(str(a.name), "tensor%d" % len(a.type.shape()) if a.type.is_tensor_or_window() else ("scalar" if a.type.is_numeric() else type(a.type).__name__)) for a in x.args]

    names0, names1 = sig(ir), sig(irq)
    if names0 != names1:
        raise Violation({"util": u, "kind": "signature"}, f"{json.dumps(desc)}: arguments changed from {names0} to {names1}")
    n_cmp = 0
    stores = False
    it = Interp()
    for fv in fvs:
        if u == "add_assertion":
            envs = {a.name: fv["ctrl"][str(a.name)] for a in irq.args if str(a.name) in fv["ctrl"]}
            try:
                if it._ctrl(irq.preds[-1], envs) is not True:
                    continue
            except Exception:
                continue
        o0 = run_outcome(ir, fv, cfg_types=CFG_TYPES)
        if o0.unsafe is not None or o0.limit:
            continue
        o1 = run_outcome(irq, fv, cfg_types=CFG_TYPES)
        bad = compare_outcomes(o0, o1) or (compare_outcomes(o1, o0) if o1.bufs is not None else None)
        if bad:
            raise Violation({"util": u, "kind": bad[0]}, f"{json.dumps(desc)} on input {json.dumps(fv)}: {bad[1]}\n--- original:\n{safe_str(p)}\n--- result:\n{safe_str(q)}")
        n_cmp += 1
        stores = stores or did_store(o0, fv, ir)
    if n_cmp == 0:
        raise Skip("no-comparable-input")
    return info(case, desc, uses and stores, p, q)


def info(case, desc, nontrivial, p, q):
    return {
        "nontrivial": bool(nontrivial),
        "digest": {"p": render_program(case["prog"]), "u": desc},
        "classes": ["util:" + desc["util"]] + (["form:" + desc["form"]] if "form" in desc else []),
        "sample": {"program": safe_str(p), "utility": desc, "result_signature": str(q).split("\n")[0]},
    }


def case_strategy():
    val = st.fixed_dictionaries({"fill": st.integers(0, 5), "layout": st.integers(0, 5), "cfg": st.lists(st.integers(0, 20), min_size=5, max_size=5), "pick": st.integers(0, 50)})
    ks = (st.integers(0, 30), st.integers(0, 13), st.integers(0, 13))
    general = st.fixed_dictionaries({"prog": programs(max_stmts=10, par=False), "util": st.tuples(st.sampled_from(UTILS), *ks).map(list), "val": val})
    # directed sub-domains: (a) transpose of a 2-d WINDOW argument in programs that dispatch on
    # stride(a, d); (b) partial_eval of an index argument that inner loops shadow by name
    transp = st.fixed_dictionaries(
        {"prog": programs(max_stmts=8, par=False, force_window2d=True, stride_cond_pct=45, calls=False), "util": st.tuples(st.just("transpose"), st.just(0), *ks[1:]).map(list), "val": val}
    )
    peval = st.fixed_dictionaries(
        {"prog": programs(max_stmts=10, par=False, index_arg_pct=100, shadow_pct=85), "util": st.tuples(st.just("partial_eval"), *ks).map(list), "val": val}
    )
    return st.one_of(general, general, general, transp, peval)


def run(ctx):
    global CTX
    CTX = ctx
    run_cases(ctx, case_strategy(), guarded(ctx, check_case), ctx.budget(2400, 40000))
