"""child interpreter for C18: reads {"sessions": [...], "preroll": k, "reverse": bool, "junk": k} on stdin,
prints one JSON line per session: {"id", "steps": [[outcome, text]...], "c": text|null, "h": text|null}"""
from __future__ import annotations

import json
import sys


def main():
    req = json.load(sys.stdin)
    from exo.core.prelude import Sym
    from exoverif.exoutil import exec_source
    from exoverif.gen.programs import build
    from exoverif import sched
    from exoverif.common import rejection_types

    for i in range(req.get("preroll", 0)):
        Sym(f"junk{i % 3}")
    if req.get("junk", 0):
        src = "".join(f"@proc\ndef junk{i}(n: size, x: f32[n]):\n    for i in seq(0, n):\n        x[i] = {float(i)}\n\n" for i in range(req["junk"]))
        g = exec_source(src)
        for i in range(req["junk"]):
            try:
                g[f"junk{i}"].c_code_str()
            except Exception:
                pass
    sessions = list(enumerate(req["sessions"]))
    if req.get("reverse"):
        sessions = list(reversed(sessions))
    out = {}
    for sid, case in sessions:
        rec = {"id": sid, "steps": [], "c": None, "h": None, "err": None}
        try:
            env, p = build(case["prog"])
        except rejection_types() as e:
            rec["err"] = "frontend:" + type(e).__name__
            out[sid] = rec
            continue
        except RecursionError:
            rec["err"] = "frontend:RecursionError"
            out[sid] = rec
            continue
        sctx = sched.SchedCtx(env, case["prog"])
        rec["steps"].append(["source", _s(p)])
        for step in case["steps"]:
            q, outcome, desc = sched.apply_step(p, step, sctx)
            if outcome == "accepted":
                p = q
                rec["steps"].append([step[0], _s(p)])
            else:
                rec["steps"].append([step[0] + ":" + outcome, ""])
        try:
            from exo.API import compile_procs_to_strings

            procs = [p]
            if case.get("also_callees"):
                procs = [env[c["name"]] for c in case["prog"]["callees"]][:: -1 if case.get("rev_procs") else 1] + [p]
            c, h = compile_procs_to_strings(procs, "gen.h")
            rec["c"], rec["h"] = c, h
        except Exception as e:
            rec["c"] = "EXC:" + type(e).__name__
        out[sid] = rec
    json.dump([out[k] for k in sorted(out)], sys.stdout)


def _s(p):
    try:
        return str(p)
    except Exception as e:
        return "UNPRINTABLE:" + type(e).__name__


if __name__ == "__main__":
    main()
