#!/bin/sh
# tools/seed_demo.sh seeded/<X>: demo must PASS on /repo and FAIL with the patch
d="$1"
echo "--- unchanged:"; PYTHONPATH=/repo/src /venv/bin/python "$d/demo.py" 2>&1 | grep -v WARNING | tail -2; echo "exit=$?"
echo "--- patched:"; /verif/tools/with_mutant.sh "$d/patch.diff" -- /venv/bin/python "$(readlink -f $d/demo.py)" 2>&1 | grep -v WARNING | tail -3
