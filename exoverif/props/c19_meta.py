RULE = (
    "Hypothesis draws a program from G and one utility application: partial_eval (every subset of size/index/bool arguments, "
    "keyword or positional-prefix form, values from the admissible box), transpose (every rank-2 argument), add_assertion (drawn "
    "predicates over the arguments), rename, make_instr, set_precision / set_memory / set_window (all argument and allocation "
    "targets), parallelize_loop (every loop). Oracle with the reference interpreter in exact rationals on all selected admissible "
    "valuations (<=8 per case, strided windows, initial config): partial_eval(p, v)(rest) == p(v, rest) on every valuation that "
    "agrees with v; transpose(p, a) run on the transposed contents leaves every other buffer equal and a transposed-equal; "
    "add_assertion: identical behaviour on inputs satisfying the new predicate and the predicate list is a superset; the other "
    "utilities: identical exact-real final state (precision ignored, par run sequentially) and unchanged argument names/kinds. "
    "Non-trivial: the utility was accepted and touches an argument/allocation/loop that the body uses, and the procedure stores "
    "something. Distinct = digest(program, utility, arguments)."
)
ASSUMPTIONS = ["exact-real semantics: precision annotations are ignored by the oracle, par loops are executed sequentially"]
BOUNDS = {"valuations_per_case": 8}
