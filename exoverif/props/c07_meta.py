RULE = (
    "Hypothesis draws a program from G and a history of <=8 (quick) / <=16 (thorough) calls [op,k1,k2,k3,target]: the op "
    "(whole catalogue incl. unsafe escape hatches and stdlib compositions, ~half of the calls fail: ill-placed cursors, "
    "out-of-range windows/sizes, late-failing checks) is applied to ANY previously obtained procedure (target). "
    "Queries (find, forward, is_eq, str, c_code_str) are interleaved. After EVERY call, successful or failing, for every "
    "procedure and sub-procedure ever obtained: an independent deep fingerprint of the LoopIR tree (node kinds, list lengths, "
    "Sym identities, constants, types, memories), str(p) and c_code_str() text-or-exception-type must be unchanged; saved "
    "cursors must resolve to the same node objects; re-running the first accepted call on its original procedure must print "
    "the same result (catches analysis-cache corruption). Non-trivial: >=2 live procedures (source, callees, derived) and >=1 failing call "
    "or >=1 accepted call that touched an index list or a callee. Distinct = digest of (program, resolved history)."
)
ASSUMPTIONS = [
    "fingerprint is computed by an own traversal over attrs fields (srcinfo ignored)",
    "c_code_str is compared as text or exception type (checked when a procedure is created and at the end of the history)",
]
BOUNDS = {"history": {"quick": 8, "thorough": 16}}
