"""C16 - find and cursor navigation are exact."""
from __future__ import annotations

import json

from hypothesis import strategies as st

from exo.core.LoopIR import LoopIR, T
from exo.API_cursors import InvalidCursor
import exo.API_cursors as PC

from ..common import Violation, Skip, run_cases, guarded, rejection_types
from ..gen.programs import programs, build, render_program
from .. import sched
from .c01 import safe_str

from exo.libs.externs import *  # noqa: pattern strings resolve extern names in the caller's scope

PROP = "C16"
CTX = None

# ---- rendering a node as a pattern (base names), with holes


def r_e(e, holes, path):
    if path in holes:
        return "_"
    if isinstance(e, LoopIR.Read):
        if e.idx:
            return f"{e.name}[{', '.join(r_e(i, holes, path + (('idx', k),)) for k, i in enumerate(e.idx))}]"
        return str(e.name)
    if isinstance(e, LoopIR.Const):
        if isinstance(e.val, bool):
            return "True" if e.val else "False"
        return repr(e.val) if not (isinstance(e.val, (int, float)) and e.val < 0) else f"({e.val!r})"
    if isinstance(e, LoopIR.USub):
        return f"-({r_e(e.arg, holes, path + (('arg', None),))})"
    if isinstance(e, LoopIR.BinOp):
        return f"({r_e(e.lhs, holes, path + (('lhs', None),))} {e.op} {r_e(e.rhs, holes, path + (('rhs', None),))})"
    if isinstance(e, LoopIR.Extern):
        return f"{e.f.name()}({', '.join(r_e(a, holes, path + (('args', k),)) for k, a in enumerate(e.args))})"
    if isinstance(e, LoopIR.ReadConfig):
        return f"{e.config.name()}.{e.field}"
    if isinstance(e, LoopIR.StrideExpr):
        return f"stride({e.name}, {e.dim})"
    raise Skip("unrenderable-expr")


def r_s(s, holes):
    if isinstance(s, (LoopIR.Assign, LoopIR.Reduce)):
        lhs = str(s.name)
        if s.idx:
            lhs += "[" + ", ".join(r_e(i, holes, (("idx", k),)) for k, i in enumerate(s.idx)) + "]"
        return f"{lhs} {'=' if isinstance(s, LoopIR.Assign) else '+='} {r_e(s.rhs, holes, (('rhs', None),))}"
    if isinstance(s, LoopIR.For):
        return f"for {s.iter} in seq({r_e(s.lo, holes, (('lo', None),))}, {r_e(s.hi, holes, (('hi', None),))}): _"
    if isinstance(s, LoopIR.If):
        if ("orelse",) in holes:
            # pattern WITH an else clause: denotes only ifs that have one
            return f"if {r_e(s.cond, holes, (('cond', None),))}:\n    _\nelse:\n    _"
        return f"if {r_e(s.cond, holes, (('cond', None),))}: _"
    if isinstance(s, LoopIR.Alloc):
        return f"{s.name}: _"
    if isinstance(s, LoopIR.Call):
        return f"{s.f.name}(_)"
    if isinstance(s, LoopIR.Pass):
        return "pass"
    if isinstance(s, LoopIR.WriteConfig):
        return f"{s.config.name()}.{s.field} = _"
    raise Skip("unrenderable-stmt")


# ---- independent structural comparator


def eq_e(p, e, holes, path):
    if path in holes:
        return True
    if isinstance(p, LoopIR.Read) and isinstance(e, LoopIR.WindowExpr):
        # documented quirk of the pattern language: 'x[_]' also denotes windows of x
        return len(p.idx) == 1 and (path + (("idx", 0),)) in holes and str(p.name) == str(e.name)
    if type(p) is not type(e):
        return False
    if isinstance(p, LoopIR.Read):
        if str(p.name) != str(e.name):
            return False
        if len(p.idx) != len(e.idx):
            return "rank"
        return all_(eq_e(a, b, holes, path + (("idx", k),)) for k, (a, b) in enumerate(zip(p.idx, e.idx)))
    if isinstance(p, LoopIR.Const):
        return type(p.val) is type(e.val) and p.val == e.val or (not isinstance(p.val, bool) and not isinstance(e.val, bool) and p.val == e.val)
    if isinstance(p, LoopIR.USub):
        return eq_e(p.arg, e.arg, holes, path + (("arg", None),))
    if isinstance(p, LoopIR.BinOp):
        return p.op == e.op and all_([eq_e(p.lhs, e.lhs, holes, path + (("lhs", None),)), eq_e(p.rhs, e.rhs, holes, path + (("rhs", None),))])
    if isinstance(p, LoopIR.Extern):
        return p.f.name() == e.f.name() and len(p.args) == len(e.args) and all_(eq_e(a, b, holes, path + (("args", k),)) for k, (a, b) in enumerate(zip(p.args, e.args)))
    if isinstance(p, LoopIR.ReadConfig):
        return p.config.name() == e.config.name() and p.field == e.field
    if isinstance(p, LoopIR.StrideExpr):
        return str(p.name) == str(e.name) and p.dim == e.dim
    return False


def all_(xs):
    r = True
    for x in xs:
        if x is False:
            return False
        if x == "rank":
            r = "rank"
    return r


def eq_s(p, s, holes):
    if isinstance(p, (LoopIR.Assign, LoopIR.Reduce)):
        if isinstance(s, LoopIR.WindowStmt):
            # documented quirk: 'w = _' also denotes window statements
            return isinstance(p, LoopIR.Assign) and not p.idx and str(p.name) == str(s.name) and (("rhs", None),) in holes
        if type(p) is not type(s) or str(p.name) != str(s.name):
            return False
        if len(p.idx) != len(s.idx):
            return "rank"
        return all_([eq_e(a, b, holes, (("idx", k),)) for k, (a, b) in enumerate(zip(p.idx, s.idx))] + [eq_e(p.rhs, s.rhs, holes, (("rhs", None),))])
    if type(p) is not type(s):
        return False
    if isinstance(p, LoopIR.For):
        return str(p.iter) == str(s.iter) and all_([eq_e(p.lo, s.lo, holes, (("lo", None),)), eq_e(p.hi, s.hi, holes, (("hi", None),))])
    if isinstance(p, LoopIR.If):
        if ("orelse",) in holes and not s.orelse:
            return False
        return eq_e(p.cond, s.cond, holes, (("cond", None),))
    if isinstance(p, LoopIR.Alloc):
        return str(p.name) == str(s.name)
    if isinstance(p, LoopIR.Call):
        return str(p.f.name) == str(s.f.name)
    if isinstance(p, LoopIR.Pass):
        return True
    if isinstance(p, LoopIR.WriteConfig):
        return p.config.name() == s.config.name() and p.field == s.field
    return False


def expr_paths(e, path=()):
    """all sub-expression paths of e (relative)"""
    out = [path]
    if isinstance(e, LoopIR.Read):
        for k, i in enumerate(e.idx):
            out += expr_paths(i, path + (("idx", k),))
    elif isinstance(e, LoopIR.BinOp):
        out += expr_paths(e.lhs, path + (("lhs", None),))
        out += expr_paths(e.rhs, path + (("rhs", None),))
    elif isinstance(e, LoopIR.USub):
        out += expr_paths(e.arg, path + (("arg", None),))
    elif isinstance(e, LoopIR.Extern):
        for k, a in enumerate(e.args):
            out += expr_paths(a, path + (("args", k),))
    return out


def stmt_hole_candidates(s):
    c = []
    if isinstance(s, (LoopIR.Assign, LoopIR.Reduce)):
        for k, i in enumerate(s.idx):
            c += expr_paths(i, (("idx", k),))
        c += expr_paths(s.rhs, (("rhs", None),))
    elif isinstance(s, LoopIR.For):
        c += expr_paths(s.lo, (("lo", None),)) + expr_paths(s.hi, (("hi", None),))
    elif isinstance(s, LoopIR.If):
        c += expr_paths(s.cond, (("cond", None),))
        if s.orelse:
            c += [("orelse",)] * 3
    return c


def same_cursor(a, b):
    try:
        return type(a._impl) is type(b._impl) and a._impl == b._impl
    except Exception:
        return False


def impl_path(c):
    i = c._impl
    if hasattr(i, "_path"):
        return list(i._path)
    return [list(i._anchor._path), i._attr, [i._range.start, i._range.stop]]


# ---- navigation laws


def check_navigation(p, st_):
    n = 0
    for s in st_:
        c = sched.cursor_at(p, s.path)
        where = f"statement {sched.path_str(s.path)} of\n{safe_str(p)}"
        nx, pv = c.next(), c.prev()
        if s.pos + 1 < s.nsib:
            if isinstance(nx, InvalidCursor) or not same_cursor(nx.prev(), c):
                raise Violation({"kind": "nav", "law": "next-prev"}, f"c.next().prev() != c at {where}")
        elif not isinstance(nx, InvalidCursor):
            raise Violation({"kind": "nav", "law": "next-at-end"}, f"next() of the last statement is not invalid at {where}")
        if s.pos > 0:
            if isinstance(pv, InvalidCursor) or not same_cursor(pv.next(), c):
                raise Violation({"kind": "nav", "law": "prev-next"}, f"c.prev().next() != c at {where}")
        elif not isinstance(pv, InvalidCursor):
            raise Violation({"kind": "nav", "law": "prev-at-start"}, f"prev() of the first statement is not invalid at {where}")
        if not same_cursor(c.before().anchor(), c) or not same_cursor(c.after().anchor(), c):
            raise Violation({"kind": "nav", "law": "gap-anchor"}, f"before()/after().anchor() != c at {where}")
        blk = c.as_block()
        if len(blk) != 1 or not same_cursor(blk[0], c):
            raise Violation({"kind": "nav", "law": "as_block"}, f"as_block()[0] != c at {where}")
        par = c.parent()
        attr = s.path[-1][0]
        if s.parent_kind == "proc":
            if not isinstance(par, InvalidCursor) and isinstance(par, PC.StmtCursorPrototype):
                raise Violation({"kind": "nav", "law": "parent-of-top-level"}, f"parent() of a top-level statement is a statement cursor at {where}")
            full = p.body()
        else:
            if isinstance(par, InvalidCursor):
                raise Violation({"kind": "nav", "law": "parent"}, f"parent() invalid for a nested statement at {where}")
            full = par.body() if attr == "body" else par.orelse()
        if len(full) != s.nsib or not same_cursor(full[s.pos], c):
            raise Violation({"kind": "nav", "law": "parent-child"}, f"parent().{attr}()[{s.pos}] != c (block has {len(full)} statements, expected {s.nsib}) at {where}")
        its = list(full)
        if len(its) != len(full) or not same_cursor(its[s.pos], full[s.pos]):
            raise Violation({"kind": "nav", "law": "iteration-vs-indexing"}, f"iterating the block differs from indexing it at {where}")
        # slicing and expand are inverse
        for j in range(s.pos + 1, min(s.nsib, s.pos + 3) + 1):
            sl = full[s.pos : j]
            if len(sl) != j - s.pos or not same_cursor(sl[0], c):
                raise Violation({"kind": "nav", "law": "slice"}, f"block[{s.pos}:{j}] has wrong extent at {where}")
            ex = sl.expand(s.pos, s.nsib - j)
            if len(ex) != s.nsib or not same_cursor(ex[0], full[0]):
                raise Violation({"kind": "nav", "law": "slice-expand"}, f"block[{s.pos}:{j}].expand({s.pos},{s.nsib - j}) is not the whole block at {where}")
            ex2 = sl.expand()
            if len(ex2) != s.nsib:
                raise Violation({"kind": "nav", "law": "expand-all"}, f"expand() does not cover the whole block at {where}")
        n += 1
    return n


# ---- find


def ref_matches(ir, pnode, holes, is_stmt):
    st_, ex = sched.collect(ir)
    out, rank_amb = [], 0
    if is_stmt:
        for s in st_:
            r = eq_s(pnode, s.node, holes)
            if r == "rank":
                rank_amb += 1
            elif r:
                out.append(s)
    else:
        # pre-order over all expression nodes in program order: sched.collect walks statements
        # in pre-order and, per statement, idx.., rhs / lo, hi / cond in the documented child order
        for e in ex:
            r = eq_e(pnode, e.node, holes, ())
            if r == "rank":
                rank_amb += 1
            elif r:
                out.append(e)
    return out, rank_amb


def check_case(case):
    from exo.API import SchedulingError

    try:
        env, p = build(case["prog"])
    except rejection_types():
        raise Skip("frontend-reject")
    ir = p.INTERNAL_proc()
    st_, ex = sched.collect(ir)
    if not st_:
        raise Skip("empty")
    n_nav = check_navigation(p, st_)
    classes = [f"nav-positions={min(n_nav, 20)//5*5}+"]
    nontriv = False
    samples = []
    for k1, k2, k3, k4 in case["pats"]:
        is_stmt = k4 % 3 != 0 or not ex
        if is_stmt:
            site = st_[k1 % len(st_)]
            if site.kind in ("WindowStmt", "Free"):
                continue
            node = site.node
            cands = stmt_hole_candidates(node)
        else:
            ecs = [e for e in ex if e.kind in ("Read", "BinOp", "Extern", "USub") and e.parent_kind in ("data", "index")]
            if not ecs:
                continue
            site = ecs[k1 % len(ecs)]
            node = site.node
            cands = [q for q in expr_paths(node) if q != ()]
        holes = set()
        if cands:
            for j in range(k2 % 3):
                holes.add(cands[(k3 + 7 * j) % len(cands)])
        # fully general headers (they match OTHER statements of the same kind, which is where the
        # else-clause / bound comparison of the matcher matters)
        if is_stmt and isinstance(node, LoopIR.If) and k3 % 2 == 0:
            holes = {(("cond", None),)} | ({("orelse",)} if node.orelse else set())
        elif is_stmt and isinstance(node, LoopIR.For) and k3 % 4 == 1:
            holes = {(("lo", None),), (("hi", None),)}
        try:
            pat = r_s(node, holes) if is_stmt else r_e(node, holes, ())
        except Skip:
            continue
        if not is_stmt and pat == "_":
            continue
        ref, rank_amb = ref_matches(ir, node, holes, is_stmt)
        if rank_amb:
            classes.append("rank-ambiguous(skipped)")
            continue
        where = f"pattern {pat!r} on\n{safe_str(p)}"
        ref_paths = [s.path for s in ref]
        if site.path not in ref_paths:
            raise Violation({"kind": "harness", "what": "source-not-in-reference"}, f"internal: source node not in reference list for {where}")
        try:
            got = p.find_all(pat)
        except SchedulingError as e:
            raise Violation({"kind": "find_all-raises", "stmt": str(is_stmt)}, f"find_all raised although the reference matcher finds {len(ref)} matches (incl. the node the pattern was derived from): {e}\n{where}")
        except rejection_types() as e:
            classes.append("pattern-rejected:" + type(e).__name__)
            continue
        got_paths = []
        for g in got:
            ip = impl_path(g)
            if isinstance(g, PC.BlockCursor):
                if len(g) != 1:
                    raise Violation({"kind": "find-block-length"}, f"a single-statement pattern matched a block of {len(g)} statements: {where}")
                ip = list(g[0]._impl._path)
            got_paths.append([tuple(x) for x in ip])
        want = [[tuple(x) for x in q] for q in ref_paths]
        if got_paths != want:
            kind = "order" if sorted(map(str, got_paths)) == sorted(map(str, want)) else ("duplicates" if len(set(map(str, got_paths))) != len(got_paths) else "set-differs")
            raise Violation(
                {"kind": "find_all-" + kind, "stmt": str(is_stmt)},
                f"find_all returned {[sched.path_str(q) for q in got_paths]} but the structural matches in program order are {[sched.path_str(q) for q in want]}\n{where}",
            )
        # find = first, #n = n-th, out of range raises
        first = p.find(pat)
        fp = list(first[0]._impl._path) if isinstance(first, PC.BlockCursor) else list(first._impl._path)
        if [tuple(x) for x in fp] != want[0]:
            raise Violation({"kind": "find-not-first"}, f"find returned {sched.path_str(fp)}, first structural match is {sched.path_str(want[0])}\n{where}")
        n = k3 % (len(want) + 1)
        try:
            nth = p.find(f"{pat} #{n}")
            if n >= len(want):
                raise Violation({"kind": "find-#n-out-of-range-accepted"}, f"'{pat} #{n}' returned a cursor although there are only {len(want)} matches\n{where}")
            np_ = list(nth[0]._impl._path) if isinstance(nth, PC.BlockCursor) else list(nth._impl._path)
            if [tuple(x) for x in np_] != want[n]:
                raise Violation({"kind": "find-#n-wrong"}, f"'{pat} #{n}' returned {sched.path_str(np_)}, the {n}-th structural match is {sched.path_str(want[n])}\n{where}")
        except SchedulingError as e:
            if n < len(want):
                raise Violation({"kind": "find-#n-raises"}, f"'{pat} #{n}' raised although there are {len(want)} matches: {e}\n{where}")
        # shorthand: find_loop / find_alloc_or_arg
        if is_stmt and isinstance(node, LoopIR.For):
            loops = [s for s in st_ if s.kind == "For" and str(s.node.iter) == str(node.iter)]
            k = k2 % len(loops)
            c = p.find_loop(f"{node.iter} #{k}")
            if list(c._impl._path) != list(loops[k].path):
                raise Violation({"kind": "find_loop-shorthand"}, f"find_loop('{node.iter} #{k}') returned {sched.path_str(c._impl._path)}, expected {sched.path_str(loops[k].path)}\n{safe_str(p)}")
        # a pattern that cannot match must raise
        if is_stmt and isinstance(node, (LoopIR.Assign, LoopIR.Reduce)):
            bad = pat.replace(str(node.name), "zz_nomatch", 1)
            try:
                r = p.find(bad)
                raise Violation({"kind": "find-matches-unknown-name"}, f"find({bad!r}) returned {r} although no statement writes 'zz_nomatch'\n{safe_str(p)}")
            except SchedulingError:
                pass
        deep = any(a[0] == "orelse" for a in site.path) or any(a[0] == "args" for a in site.path)
        if (holes and len(want) >= 2) or deep:
            nontriv = True
        if len(samples) < 2:
            samples.append({"pattern": pat, "matches": [sched.path_str(q) for q in want]})
        classes.append("stmt-pattern" if is_stmt else "expr-pattern")
        classes.append(f"matches={min(len(want), 4)}")
    return {
        "nontrivial": nontriv,
        "digest": {"p": render_program(case["prog"]), "pats": case["pats"]},
        "classes": classes,
        "sample": {"program": safe_str(p), "patterns": samples} if samples else None,
    }


def case_strategy():
    pat = st.tuples(st.integers(0, 60), st.integers(0, 8), st.integers(0, 30), st.integers(0, 8)).map(list)
    from ..gen.templates import programs_or_templates

    return st.fixed_dictionaries({"prog": programs_or_templates(20, max_stmts=12), "pats": st.lists(pat, min_size=1, max_size=6)})


def run(ctx):
    global CTX
    CTX = ctx
    run_cases(ctx, case_strategy(), guarded(ctx, check_case), ctx.budget(2400, 40000))
