RULE = (
    "Hypothesis draws a program from G that reads and writes fields of two configs (directly, in branches and loops, through "
    "callees, read-after-write chains) and a schedule of <=4 (quick) / <=8 (thorough) steps weighted to bind_config (every scalar/"
    "bool read x field), write_config (every gap x field x rhs), delete_config (every config write), call_eqv (callee variants: "
    "renamed, simplified, loop-divided, config-writing at the start/end of the callee, and an UNRELATED look-alike defined from the "
    "same text), interleaved with ordinary ops; inputs x initial config states. Oracle with the reference interpreter (exact) on "
    "all selected admissible valuations: argument buffers identical to the ORIGINAL procedure; D = set of config fields whose "
    "final value differs on some input must be a subset of the keys reported by get_strictest_eqv_proc(original, derived) (so a "
    "value read later is never changed unobserved: a changed read shows up in the buffers or control flow); call_eqv with a "
    "look-alike of different origin must raise. Non-trivial: >=1 accepted config-affecting step and (a later read of the field "
    "exists or D is non-empty). Distinct = digest(program, accepted steps)."
)
ASSUMPTIONS = ["config fields never written and not in the initial state are uninitialised (poison) and not compared", "as C01"]
BOUNDS = {"max_steps": {"quick": 4, "thorough": 8}, "configs": "CfgA{a:index,s:f32,flag:bool}, CfgB{k:index,t:f32}"}
