#!/usr/bin/env python3
"""tools/render_matrix.py: rewrite the table between the SEED-MATRIX markers of DESIGN.md from
seeded/*/meta.json and seeded/*/detect.json (written by tools/seed_matrix.sh)."""
import glob, json, os, re

ROOT = os.path.dirname(os.path.dirname(os.path.abspath(__file__)))
rows = []
for d in sorted(glob.glob(os.path.join(ROOT, "seeded", "*"))):
    name = os.path.basename(d)
    try:
        meta = json.load(open(os.path.join(d, "meta.json")))
    except Exception:
        continue
    det = None
    if os.path.exists(os.path.join(d, "detect.json")):
        try:
            det = json.load(open(os.path.join(d, "detect.json")))
        except Exception:
            det = None
    summ = re.sub(r"\s+", " ", meta.get("summary", ""))
    short = summ[:150] + ("..." if len(summ) > 150 else "")
    short = short.replace("|", "/")
    if det is None:
        verdict = "not run"
    elif det["exit"] == 1 and det["violations"] > 0:
        verdict = f"caught ({det['tier']}, {det['violations']} bucket(s), {det['wall_s']} s)"
    elif det["exit"] == 0:
        verdict = f"MISSED ({det['tier']}, {det['wall_s']} s)"
    else:
        verdict = f"harness error (exit {det['exit']})"
    for f in sorted(glob.glob(os.path.join(d, "detect_*.json"))):
        try:
            x = json.load(open(f))
        except Exception:
            continue
        if x["exit"] == 1 and x["violations"] > 0:
            verdict += f"; caught by the check of {x['property']} ({x['tier']}, {x['wall_s']} s)"
        elif x["exit"] == 0:
            verdict += f"; also missed by the check of {x['property']}"
    corpus = "yes" if os.path.exists(os.path.join(ROOT, "corpus", name[:3], name + ".json")) else ""
    rows.append(f"| {name} | {verdict} | {corpus} | {short} |")
table = "| seed | check of its property | replay in corpus/ | change |\n|---|---|---|---|\n" + "\n".join(rows)
p = os.path.join(ROOT, "DESIGN.md")
s = open(p).read()
a, b = "<!-- SEED-MATRIX-BEGIN -->", "<!-- SEED-MATRIX-END -->"
if a in s and b in s:
    s = s[: s.index(a) + len(a)] + "\n" + table + "\n" + s[s.index(b) :]
    open(p, "w").write(s)
    print("DESIGN.md updated:", len(rows), "rows")
else:
    print(table)
