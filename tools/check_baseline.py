#!/usr/bin/env python3
"""tools/check_baseline.py <junit.xml>: every test of BASELINE.json's stable_pass must pass."""
import json, sys, xml.etree.ElementTree as ET

base = set(json.load(open("/root/.vp/BASELINE.json"))["stable_pass"])
passed, failed = set(), set()
for tc in ET.parse(sys.argv[1]).getroot().iter("testcase"):
    name = f"{tc.get('classname')}::{tc.get('name')}"
    bad = any(ch.tag in ("failure", "error", "skipped") for ch in tc)
    (failed if bad else passed).add(name)
missing = sorted(base - passed)
print(f"passed={len(passed)} not-passed={len(failed)} stable_pass={len(base)} missing-from-pass={len(missing)}")
for m in missing[:40]:
    print("  MISSING", m)
sys.exit(1 if missing else 0)
