RULE = (
    "(a) Expression level: quasi-affine index expressions (+, -, unary minus, scaling by positive/negative literals, / and % by "
    "positive literals, free symbolic variables) x environments {Sym: (lo|None, hi|None)} incl. negative, half-open and unknown "
    "ranges are given to index_range_analysis / constant_bound / IndexRangeEnvironment.add_loop_iter + check_expr_bound(s) / "
    "IndexRange | (join) / partial_eval_with_range. Oracle: brute-force enumeration of every valuation inside the ranges (unknown "
    "sides explored over a +-8 window, free variables over -5..5) with floor semantics: every value v must satisfy "
    "base(valuation)+lo <= v <= base(valuation)+hi, a True from check_expr_bound(s) must hold on every valuation. All expressions "
    "of depth<=2 over 2 bounded vars, 1 free var and small constants are enumerated exhaustively (quick: the depth<=1 core plus one "
    "more unary layer); deeper ones are drawn by Hypothesis. (b) User level: generated procedures with loop nests (non-zero lo, "
    "symbolic bounds, triangular bounds, same-named nested iterators) for stdlib infer_range / bounds_inference: the reported range "
    "must contain every value the expression takes when the nest is executed for all sizes 1..5. "
    "Non-trivial: expression with >=1 of {negative scaling, /, %, free variable} and >=1 bounded variable with a non-singleton range. "
    "Distinct = digest of the case."
)
ASSUMPTIONS = ["floor division / modulo semantics for index expressions as documented", "empty ranges are vacuous (counted, not checked)"]
BOUNDS = {"vars": 3, "const": "-4..6", "window_for_unknown": 8, "sizes": "1..5"}
