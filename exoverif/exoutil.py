"""Helpers to define Exo procedures from generated source text (no temp files)."""
from __future__ import annotations
import itertools
import linecache
import sys
import types

_counter = itertools.count()

PRELUDE = (
    "from __future__ import annotations\n"
    "from exo import proc, instr, config, DRAM, Procedure\n"
    "from exo.libs.memories import *\n"
    "from exo.libs.externs import *\n"
    "from exo.stdlib.scheduling import *\n"
)


def exec_source(src: str, env: dict | None = None, prelude: bool = True) -> dict:
    """exec `src` as if it were a file, so inspect.getsource works for @proc."""
    fn = f"<exoverif-{next(_counter)}>"
    full = (PRELUDE if prelude else "") + src
    linecache.cache[fn] = (len(full), None, full.splitlines(True), fn)
    if env is None:
        modname = f"exoverif_gen_{fn.strip('<>').replace('-', '_')}"
        mod = types.ModuleType(modname)
        mod.__file__ = fn
        sys.modules[modname] = mod
        g = mod.__dict__
    else:
        g = env
        g.setdefault("__name__", "exoverif_generated")
        if g["__name__"] in sys.modules:
            # classes (@config) are located through sys.modules[...].__file__
            sys.modules[g["__name__"]].__file__ = fn
    try:
        exec(compile(full, fn, "exec"), g)
    finally:
        # keep linecache entry: SrcInfo strings / error messages may refer to it;
        # bounded by dropping old ones.
        if len(linecache.cache) > 4000:
            for k in [k for k in linecache.cache if k.startswith("<exoverif-")][:2000]:
                linecache.cache.pop(k, None)
                sys.modules.pop(f"exoverif_gen_{k.strip('<>').replace('-', '_')}", None)
    return g


def define(src: str, name: str, env: dict | None = None):
    g = exec_source(src, env)
    return g[name]
