"""C17 - the printed procedure denotes the procedure."""
from __future__ import annotations

import ast
import json
import os
import re

from hypothesis import strategies as st

from exo.core.LoopIR import LoopIR, T

from ..common import Violation, Skip, run_cases, guarded, rejection_types
from ..gen.templates import programs_or_templates
from ..gen.programs import programs, build, render_program, CONFIG_PRELUDE
from ..exoutil import exec_source
from .. import sched
from ..eqcheck import ctrl_valuations, run_outcome, compare_outcomes, initial_config, CFG_TYPES
from .c01 import safe_str

PROP = "C17"
CTX = None
NAME_OPS = ["unroll_loop", "inline", "cut_loop", "divide_loop", "stage_mem", "unroll_buffer", "specialize", "bind_expr", "fission", "extract_subproc", "expand_dim", "add_loop", "lift_alloc", "reorder_loops", "mult_loops", "inline_window", "fuse", "std.auto_stage_mem"]


class Mismatch(Exception):
    pass


class Lockstep:
    """walk LoopIR and the Python AST of its printed text together"""

    def __init__(self):
        self.pairs = []  # (Sym, printed identifier, 'bind'|'use')
        self.scopes = [{}]  # printed identifier -> Sym (visible binders)
        self.sym_name = {}

    def bind(self, sym, ident, what):
        for sc in self.scopes:
            other = sc.get(ident)
            if other is not None and other is not sym:
                raise Violation(
                    {"kind": "two-syms-one-identifier", "what": what},
                    f"identifier {ident!r} is bound for {sym!r} ({what}) while it already denotes the different, still visible variable {other!r}",
                )
        prev = self.sym_name.get(sym)
        self.scopes[-1][ident] = sym
        self.sym_name[sym] = ident

    def use(self, sym, ident, ctx):
        # resolve identifier through the visible scopes (innermost first)
        found = None
        for sc in reversed(self.scopes):
            if ident in sc:
                found = sc[ident]
                break
        if found is None:
            raise Violation({"kind": "use-of-unbound-identifier", "ctx": "alloc" if re.match(r"^\w+: ", ctx) else "other"}, f"printed text uses {ident!r} (for {sym!r}) in {ctx} but no visible declaration prints under that name")
        if found is not sym:
            raise Violation(
                {"kind": "identifier-denotes-other-sym"},
                f"in {ctx} the printed identifier {ident!r} resolves to {found!r}, but the LoopIR node refers to {sym!r}",
            )

    # ---- expressions
    def expr(self, e, a, ctx):
        if isinstance(e, LoopIR.Read):
            if e.idx:
                if not isinstance(a, ast.Subscript):
                    raise Mismatch(f"{e} printed as {ast.dump(a)[:80]}")
                self.name_use(e.name, a.value, ctx)
                idx = a.slice.elts if isinstance(a.slice, ast.Tuple) else [a.slice]
                if len(idx) != len(e.idx):
                    raise Mismatch(f"{e}: {len(e.idx)} indices printed as {len(idx)}")
                for x, y in zip(e.idx, idx):
                    self.expr(x, y, ctx)
            else:
                self.name_use(e.name, a, ctx)
        elif isinstance(e, LoopIR.Const):
            v = self.const_val(a)
            if isinstance(e.val, bool) or isinstance(v, bool):
                if bool(v) != bool(e.val) or isinstance(v, bool) != isinstance(e.val, bool):
                    raise Mismatch(f"const {e.val!r} printed as {v!r}")
            elif float(v) != float(e.val):
                raise Mismatch(f"const {e.val!r} printed as {v!r}")
        elif isinstance(e, LoopIR.USub):
            if isinstance(a, ast.UnaryOp) and isinstance(a.op, ast.USub):
                if isinstance(e.arg, LoopIR.Const) and isinstance(a.operand, ast.Constant):
                    self.expr(e.arg, a.operand, ctx)
                else:
                    self.expr(e.arg, a.operand, ctx)
            elif isinstance(a, ast.Constant) and isinstance(e.arg, LoopIR.Const):
                if float(a.value) != -float(e.arg.val):
                    raise Mismatch(f"{e} printed as {a.value}")
            else:
                raise Mismatch(f"unary minus {e} printed as {ast.dump(a)[:80]}")
        elif isinstance(e, LoopIR.BinOp):
            op = e.op
            if op in ("+", "-", "*", "/", "%"):
                want = {"+": ast.Add, "-": ast.Sub, "*": ast.Mult, "/": ast.Div, "%": ast.Mod}[op]
                if not (isinstance(a, ast.BinOp) and isinstance(a.op, want)):
                    raise Mismatch(f"({e}) [{op}] printed as {ast.dump(a)[:100]}")
                self.expr(e.lhs, a.left, ctx)
                self.expr(e.rhs, a.right, ctx)
            elif op in ("and", "or"):
                want = ast.And if op == "and" else ast.Or
                if not (isinstance(a, ast.BoolOp) and isinstance(a.op, want)):
                    raise Mismatch(f"({e}) [{op}] printed as {ast.dump(a)[:100]}")
                # python flattens  a and b and c ; rebuild left-assoc / right-assoc shapes
                vals = list(a.values)
                flat = []

                def flatten(x):
                    if isinstance(x, LoopIR.BinOp) and x.op == op:
                        flatten(x.lhs)
                        flatten(x.rhs)
                    else:
                        flat.append(x)

                flatten(e)
                pf = []

                def pflatten(x):
                    if isinstance(x, ast.BoolOp) and isinstance(x.op, want):
                        for v in x.values:
                            pflatten(v)
                    else:
                        pf.append(x)

                pflatten(a)
                if len(flat) != len(pf):
                    raise Mismatch(f"({e}) printed with {len(pf)} operands")
                for x, y in zip(flat, pf):
                    self.expr(x, y, ctx)
            else:
                want = {"<": ast.Lt, ">": ast.Gt, "<=": ast.LtE, ">=": ast.GtE, "==": ast.Eq}[op]
                if not (isinstance(a, ast.Compare) and len(a.ops) == 1 and isinstance(a.ops[0], want)):
                    raise Mismatch(f"({e}) [{op}] printed as {ast.dump(a)[:100]}")
                self.expr(e.lhs, a.left, ctx)
                self.expr(e.rhs, a.comparators[0], ctx)
        elif isinstance(e, LoopIR.Extern):
            if not (isinstance(a, ast.Call) and isinstance(a.func, ast.Name) and a.func.id == e.f.name() and len(a.args) == len(e.args)):
                raise Mismatch(f"extern {e} printed as {ast.dump(a)[:100]}")
            for x, y in zip(e.args, a.args):
                self.expr(x, y, ctx)
        elif isinstance(e, LoopIR.WindowExpr):
            if not isinstance(a, ast.Subscript):
                raise Mismatch(f"window {e} printed as {ast.dump(a)[:80]}")
            self.name_use(e.name, a.value, ctx)
            idx = a.slice.elts if isinstance(a.slice, ast.Tuple) else [a.slice]
            if len(idx) != len(e.idx):
                raise Mismatch(f"window {e}: rank printed {len(idx)}")
            for w, y in zip(e.idx, idx):
                if isinstance(w, LoopIR.Point):
                    if isinstance(y, ast.Slice):
                        raise Mismatch(f"point {w} printed as slice")
                    self.expr(w.pt, y, ctx)
                else:
                    if not isinstance(y, ast.Slice) or y.lower is None or y.upper is None:
                        raise Mismatch(f"interval {w} printed as {ast.dump(y)[:60]}")
                    self.expr(w.lo, y.lower, ctx)
                    self.expr(w.hi, y.upper, ctx)
        elif isinstance(e, LoopIR.StrideExpr):
            if not (isinstance(a, ast.Call) and getattr(a.func, "id", None) == "stride" and len(a.args) == 2):
                raise Mismatch(f"stride printed as {ast.dump(a)[:80]}")
            self.name_use(e.name, a.args[0], ctx)
            if self.const_val(a.args[1]) != e.dim:
                raise Mismatch("stride dim")
        elif isinstance(e, LoopIR.ReadConfig):
            if not (isinstance(a, ast.Attribute) and isinstance(a.value, ast.Name) and a.value.id == e.config.name() and a.attr == e.field):
                raise Mismatch(f"config read {e} printed as {ast.dump(a)[:80]}")
        else:
            raise Mismatch(f"unknown expr {type(e).__name__}")

    def const_val(self, a):
        if isinstance(a, ast.Constant):
            return a.value
        if isinstance(a, ast.UnaryOp) and isinstance(a.op, ast.USub) and isinstance(a.operand, ast.Constant):
            return -a.operand.value
        raise Mismatch(f"expected a literal, got {ast.dump(a)[:60]}")

    def name_use(self, sym, a, ctx):
        if not isinstance(a, ast.Name):
            raise Mismatch(f"expected identifier for {sym!r}, got {ast.dump(a)[:60]}")
        self.use(sym, a.id, ctx)

    # ---- types
    def typ(self, t, a, ctx):
        """annotation:  f32[n, 4] @ DRAM   |  [f32][n] @ DRAM  |  f32 @ DRAM | size"""
        if isinstance(a, ast.BinOp) and isinstance(a.op, ast.MatMult):
            a = a.left
        if isinstance(t, (T.Tensor,)):
            if not isinstance(a, ast.Subscript):
                raise Mismatch(f"tensor type printed as {ast.dump(a)[:60]}")
            dims = a.slice.elts if isinstance(a.slice, ast.Tuple) else [a.slice]
            if len(dims) != len(t.hi):
                raise Mismatch("tensor rank")
            for h, d in zip(t.hi, dims):
                self.expr(h, d, ctx)

    # ---- statements
    def block(self, stmts, body, ctx):
        body = [b for b in body if not (isinstance(b, ast.Expr) and isinstance(b.value, ast.Constant))]
        if len(stmts) != len(body):
            raise Mismatch(f"{ctx}: {len(stmts)} statements printed as {len(body)}")
        for s, b in zip(stmts, body):
            self.stmt(s, b)

    def stmt(self, s, b):
        ctx = str(s).splitlines()[0][:60]
        if isinstance(s, (LoopIR.Assign, LoopIR.Reduce)):
            if isinstance(s, LoopIR.Assign):
                if not isinstance(b, ast.Assign) or len(b.targets) != 1:
                    raise Mismatch(f"assign printed as {type(b).__name__}")
                tgt, val = b.targets[0], b.value
            else:
                if not (isinstance(b, ast.AugAssign) and isinstance(b.op, ast.Add)):
                    raise Mismatch(f"reduce printed as {type(b).__name__}")
                tgt, val = b.target, b.value
            if s.idx:
                if not isinstance(tgt, ast.Subscript):
                    raise Mismatch("indexed write printed without subscript")
                self.name_use(s.name, tgt.value, ctx)
                idx = tgt.slice.elts if isinstance(tgt.slice, ast.Tuple) else [tgt.slice]
                if len(idx) != len(s.idx):
                    raise Mismatch("write rank")
                for x, y in zip(s.idx, idx):
                    self.expr(x, y, ctx)
            else:
                self.name_use(s.name, tgt, ctx)
            self.expr(s.rhs, val, ctx)
        elif isinstance(s, LoopIR.WriteConfig):
            if not (isinstance(b, ast.Assign) and isinstance(b.targets[0], ast.Attribute)):
                raise Mismatch("config write printed as " + type(b).__name__)
            t = b.targets[0]
            if t.value.id != s.config.name() or t.attr != s.field:
                raise Mismatch(f"config write {s.config.name()}.{s.field} printed as {t.value.id}.{t.attr}")
            self.expr(s.rhs, b.value, ctx)
        elif isinstance(s, LoopIR.Pass):
            if not isinstance(b, ast.Pass):
                raise Mismatch("pass printed as " + type(b).__name__)
        elif isinstance(s, LoopIR.If):
            if not isinstance(b, ast.If):
                raise Mismatch("if printed as " + type(b).__name__)
            self.expr(s.cond, b.test, ctx)
            self.scopes.append({})
            self.block(s.body, b.body, ctx + "/then")
            self.scopes.pop()
            self.scopes.append({})
            self.block(s.orelse, b.orelse, ctx + "/else")
            self.scopes.pop()
        elif isinstance(s, LoopIR.For):
            if not (isinstance(b, ast.For) and isinstance(b.iter, ast.Call) and len(b.iter.args) == 2):
                raise Mismatch("for printed as " + type(b).__name__)
            mode = "par" if isinstance(s.loop_mode, LoopIR.Par) else "seq"
            if b.iter.func.id != mode:
                raise Mismatch(f"loop mode {mode} printed as {b.iter.func.id}")
            self.expr(s.lo, b.iter.args[0], ctx)
            self.expr(s.hi, b.iter.args[1], ctx)
            self.scopes.append({})
            self.bind(s.iter, b.target.id, "loop iterator")
            self.block(s.body, b.body, ctx)
            self.scopes.pop()
        elif isinstance(s, LoopIR.Alloc):
            if not (isinstance(b, ast.AnnAssign) and isinstance(b.target, ast.Name) and b.value is None):
                raise Mismatch("alloc printed as " + type(b).__name__)
            self.typ(s.type, b.annotation, ctx)
            self.bind(s.name, b.target.id, "allocation")
        elif isinstance(s, LoopIR.WindowStmt):
            if not (isinstance(b, ast.Assign) and isinstance(b.targets[0], ast.Name)):
                raise Mismatch("window stmt printed as " + type(b).__name__)
            self.expr(s.rhs, b.value, ctx)
            self.bind(s.name, b.targets[0].id, "window")
        elif isinstance(s, LoopIR.Call):
            if not (isinstance(b, ast.Expr) and isinstance(b.value, ast.Call) and b.value.func.id == str(s.f.name)):
                raise Mismatch(f"call {s.f.name} printed as {ast.dump(b)[:80]}")
            if len(b.value.args) != len(s.args):
                raise Mismatch("call arity")
            for x, y in zip(s.args, b.value.args):
                self.expr(x, y, ctx)
        else:
            raise Mismatch("unknown stmt " + type(s).__name__)

    def proc(self, ir, text):
        try:
            tree = ast.parse(text)
        except SyntaxError as e:
            raise Violation({"kind": "printed-text-not-python-syntax"}, f"printed text does not parse: {e}\n{text}")
        fn = tree.body[0]
        if not isinstance(fn, ast.FunctionDef) or fn.name != str(ir.name):
            raise Mismatch("function header")
        if len(fn.args.args) != len(ir.args):
            raise Mismatch("argument count")
        for a, pa in zip(ir.args, fn.args.args):
            self.bind(a.name, pa.arg, "argument")
        for a, pa in zip(ir.args, fn.args.args):
            if pa.annotation is not None and isinstance(a.type, T.Tensor):
                self.typ(a.type, pa.annotation, "signature")
        body = list(fn.body)
        npred = len(ir.preds)
        asserts = [b for b in body if isinstance(b, ast.Assert)]
        if len(asserts) != npred:
            raise Mismatch(f"{npred} assertions printed as {len(asserts)}")
        for p, b in zip(ir.preds, asserts):
            self.expr(p, b.test, "assertion")
        rest = [b for b in body if not isinstance(b, ast.Assert)]
        self.block(ir.body, rest, "body")


def callees_of(ir, acc=None):
    acc = [] if acc is None else acc

    def walk(stmts):
        for s in stmts:
            if isinstance(s, LoopIR.Call):
                if all(s.f is not x for x in acc):
                    callees_of(s.f, acc)
                    acc.append(s.f)
            elif isinstance(s, LoopIR.For):
                walk(s.body)
            elif isinstance(s, LoopIR.If):
                walk(s.body)
                walk(s.orelse)

    walk(ir.body)
    return acc


def shares_base_name(ir):
    from collections import Counter

    c = Counter()
    st_, _ = sched.collect(ir)
    for a in ir.args:
        c[str(a.name)] += 1
    for s in st_:
        if s.kind == "For":
            c[str(s.node.iter)] += 1
        elif s.kind in ("Alloc", "WindowStmt"):
            c[str(s.node.name)] += 1
    return any(v > 1 for v in c.values())


def check_case(case):
    try:
        env, p = build(case["prog"])
    except rejection_types():
        raise Skip("frontend-reject")
    sctx = sched.SchedCtx(env, case["prog"])
    acc = []
    for step in case["steps"]:
        q, outcome, desc = sched.apply_step_excl(PROP, p, step, sctx)
        if outcome == "accepted":
            p = q
            acc.append(desc["op"])
    ir = p.INTERNAL_proc()
    try:
        text = str(p)
    except Exception as e:
        raise Skip("unprintable(C04)")
    where = f"after {acc}:\n{text}"
    ls = Lockstep()
    try:
        ls.proc(ir, text)
    except Mismatch as m:
        raise Violation({"kind": "printed-structure-differs"}, f"printed text does not have the structure of the procedure: {m}\n{where}")
    except Violation as v:
        raise Violation(dict(v.sig, last_op=acc[-1] if acc else "-"), v.detail + "\n" + where)
    # ---- round trip
    cs = callees_of(ir)
    if any(c.instr is not None for c in cs) or ir.instr is not None:
        raise Skip("instr")
    names = [str(c.name) for c in cs] + [str(ir.name)]
    if len(set(names)) != len(names):
        raise Skip("callee-name-clash")
    # known finding C17-bool-arg-printed-with-memory is excluded by construction: the memory
    # annotation the printer adds to bool/stride arguments is stripped before re-parsing
    # (one hand-written case in known_findings.json keeps demonstrating it)
    def strip(t):
        return re.sub(r"(: (?:bool|stride)) @ \w+", r"\1", t)

    stripped = any(strip(str(c)) != str(c) for c in cs) or strip(text) != text
    if stripped and CTX is not None and not os.environ.get("VERIF_NO_EXCLUDE"):
        CTX.excluded["C17-bool-arg-printed-with-memory"] += 1
    fix = (lambda t: t) if os.environ.get("VERIF_NO_EXCLUDE") else strip
    src = (CONFIG_PRELUDE if case["prog"].get("cfg") else "") + "".join("@proc\n" + fix(str(c)) + "\n\n" for c in cs) + "@proc\n" + fix(text) + "\n"
    try:
        g = exec_source(src)
        p2 = g[str(ir.name)]
    except rejection_types() as e:
        msg = str(e)
        if "does not depend on loop iterations" in msg:
            # a restriction of the SOURCE language (config writes must not be control-dependent on
            # iterators) that scheduling may legitimately leave behind, e.g. divide_loop's guard
            return {"nontrivial": False, "digest": text, "classes": ["reparse-rejected-by-source-restriction", f"steps={len(acc)}"], "sample": None}
        if "effect checking" in msg or "out-of-bounds" in msg or "Could not verify" in msg:
            return {"nontrivial": False, "digest": text, "classes": ["reparse-rejected-by-bounds-check", f"steps={len(acc)}"], "sample": None}
        m1 = re.sub(r"<exoverif-\d+>:\d+:\d+:?", "", msg.replace("Errors occurred during typechecking:", "")).strip().splitlines()
        raise Violation({"kind": "printed-text-rejected", "exc": type(e).__name__, "msg": (m1[0] if m1 else "")[:70]}, f"the printed text is not accepted by the front end: {type(e).__name__}: {msg[:400]}\n{where}")
    text2 = str(p2)
    if text2 != text:
        raise Violation({"kind": "print-not-a-fixpoint"}, f"re-parsed procedure prints differently:\n--- printed:\n{text}\n--- printed again:\n{text2}\nafter {acc}")
    ir2 = p2.INTERNAL_proc()
    v = case["val"]
    vals, _ = ctrl_valuations(ir, limit=4, pick=v["pick"])
    cfg0 = initial_config(v["cfg"], present=case["prog"].get("cfg", False))
    n = 0
    for c in vals:
        fv = {"ctrl": c, "fill": v["fill"], "layout": v["layout"], "config": cfg0}
        o1 = run_outcome(ir, fv, cfg_types=CFG_TYPES)
        if o1.unsafe is not None or o1.limit:
            continue
        o2 = run_outcome(ir2, fv, cfg_types=CFG_TYPES)
        bad = compare_outcomes(o1, o2) or (compare_outcomes(o2, o1) if o2.bufs is not None else None)
        if bad:
            raise Violation({"kind": "reparsed-behaves-differently:" + bad[0]}, f"input {json.dumps(fv)}: {bad[1]}\n{where}")
        n += 1
    return {
        "nontrivial": shares_base_name(ir),
        "digest": text,
        "classes": ["roundtrip-ok", f"steps={len(acc)}", "shared-base-names" if shares_base_name(ir) else "unique-names"],
        "sample": {"printed": text, "steps": acc, "inputs_compared": n},
    }


def case_strategy():
    step = st.tuples(st.sampled_from(NAME_OPS), st.integers(0, 40), st.integers(0, 23), st.integers(0, 47)).map(list)
    return st.fixed_dictionaries(
        {
            "prog": programs_or_templates(15, max_stmts=10),
            "steps": st.lists(step, min_size=0, max_size=6),
            "val": st.fixed_dictionaries({"fill": st.integers(0, 5), "layout": st.integers(0, 5), "cfg": st.lists(st.integers(0, 20), min_size=5, max_size=5), "pick": st.integers(0, 50)}),
        }
    )


def run(ctx):
    global CTX
    CTX = ctx
    run_cases(ctx, case_strategy(), guarded(ctx, check_case), ctx.budget(1000, 8000))
