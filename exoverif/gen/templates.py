"""Hand-written program templates (same JSON AST as gen/programs.py), parameterised by
small ints.  They put the schedule driver in front of structures that the random grammar
reaches only rarely: allocations passed to callees as windows with constant points,
else-branches followed by further statements, dead branches, dependent allocations in
loop nests, read-modify-write prefixes, triangular allocation extents, reductions that
reach beyond a resizable extent, configuration read-after-write chains, symbolic bounds
that may be zero.  Each template is safe by construction (checked by the front end like any
other program)."""
from __future__ import annotations

from hypothesis import strategies as st


def _arg(name, kind, prec="f32", dims=None, mem="DRAM", **kw):
    d = {"name": name, "kind": kind, "prec": prec, "mem": mem}
    if dims is not None:
        d["dims"] = dims
    d.update(kw)
    return d


def t_window_of_alloc(k):
    """3-d allocation whose rows are handed to a callee as windows with constant points"""
    a, b = k % 2, (k // 2) % 2
    copy2 = {
        "name": "copy2",
        "args": [_arg("dst", "window", dims=["2"], written=True), _arg("src", "window", dims=["2"], written=False)],
        "preds": [],
        "body": [["for", "i", "0", "2", [["assign", "dst", ["i"], "src[i]"]], "seq"]],
    }
    body = [
        ["alloc", "tmp_a", "f32", ["2", "2", "2"], "DRAM"],
        ["call", "copy2", [f"tmp_a[{a}, {b}, 0:2]", "A[0:2]"]],
        ["call", "copy2", [f"tmp_a[{1 - a}, 1, 0:2]", "A[2:4]"]],
        ["for", "i", "0", "3", [
            ["call", "copy2", [f"tmp_a[{a}, {b}, 0:2]", "A[i:i + 2]"]],
            ["for", "k", "0", "2", [["assign", "tmp_a", [str(1 - a), "k", "0"], "A[i + k]"]], "seq"],
            ["call", "copy2", ["B[i:i + 2]", f"tmp_a[{a}, {b}, 0:2]"]],
        ], "seq"],
        ["assign", "B", ["5"], f"tmp_a[{1 - a}, 1, 0] + tmp_a[{a}, {b}, 1]"],
    ]
    main = {"name": "foo", "args": [_arg("A", "tensor", dims=["8"]), _arg("B", "tensor", dims=["8"])], "preds": [], "body": body}
    return {"prec": "f32", "cfg": False, "callees": [copy2], "main": main}


def t_else_then_more(k):
    """if/else (one branch dead for k%3==0) followed by more statements; nested if in else"""
    cond = ["1 < 0", "n > 2", "0 < 1", "m > n"][k % 4]
    inner = ["m > 2", "n > 1", "1 < 0"][(k // 4) % 3]
    body = [
        ["for", "i", "0", "n", [
            ["if", cond, [["assign", "x", ["i"], "1.0"]], [["assign", "x", ["i"], "2.0"], ["if", inner, [["reduce", "y", ["i"], "x[i]"]], [["assign", "y", ["i"], "4.0"]]]]],
            ["assign", "y", ["i"], "y[i] + 3.0"],
            ["reduce", "x", ["i"], "1.0"],
        ], "seq"],
        ["if", "n > 3", [["assign", "z", ["0"], "x[0]"]], [["if", inner, [["assign", "z", ["1"], "3.0"]], [["assign", "z", ["1"], "4.0"]]], ["assign", "z", ["2"], "y[0]"]]],
        ["assign", "z", ["3"], "z[2] + 1.0"],
        ["pass"],
    ]
    main = {"name": "foo", "args": [_arg("n", "size"), _arg("m", "size"), _arg("x", "tensor", dims=["n"]), _arg("y", "tensor", dims=["n"]), _arg("z", "tensor", dims=["4"])], "preds": [], "body": body}
    return {"prec": "f32", "cfg": False, "callees": [], "main": main}


def t_dependent_alloc(k):
    """allocation inside a loop nest, initialised and consumed per iteration"""
    d = ["16", "8"][k % 2]
    body = [
        ["for", "i", "0", "4", [
            ["for", "j", "0", "3", [
                ["alloc", "a", "f32", [d], "DRAM"],
                ["for", "k", "0", d, [["assign", "a", ["k"], "A[k, i] + B[j]"]], "seq"],
                ["for", "k", "0", d, [["reduce", "C", ["k", "i"], "a[k]"]], "seq"],
            ], "seq"],
        ], "seq"],
    ]
    main = {"name": "foo", "args": [_arg("A", "tensor", dims=[d, "4"]), _arg("B", "tensor", dims=["3"]), _arg("C", "tensor", dims=[d, "4"])], "preds": [], "body": body}
    return {"prec": "f32", "cfg": False, "callees": [], "main": main}


def t_rmw_prefix(k):
    """a loop whose first statements are a loop-invariant read-modify-write"""
    op = ["t[0] * 2.0", "t[0] + 1.0", "3.0"][k % 3]
    body = [
        ["alloc", "t", "f32", ["1"], "DRAM"],
        ["assign", "t", ["0"], "x[0]"],
        ["for", "i", "0", "n", [["assign", "t", ["0"], op], ["assign", "y", ["i"], "t[0]"]], "seq"],
        ["assign", "x", ["0"], "t[0]"],
    ]
    main = {"name": "foo", "args": [_arg("n", "size"), _arg("x", "tensor", dims=["n"]), _arg("y", "tensor", dims=["n"])], "preds": [], "body": body}
    return {"prec": "f32", "cfg": False, "callees": [], "main": main}


def t_triangular_alloc(k):
    """allocation whose extent depends on the enclosing iterator"""
    body = [
        ["for", "i", "0", "n", [
            ["alloc", "t", "f32", ["i + 1"], "DRAM"],
            ["for", "j", "0", "i + 1", [["assign", "t", ["j"], "x[j]"]], "seq"],
            ["assign", "y", ["i"], "t[i] + t[0]"],
        ], "seq"],
    ]
    main = {"name": "foo", "args": [_arg("n", "size"), _arg("x", "tensor", dims=["n"]), _arg("y", "tensor", dims=["n"])], "preds": [], "body": body}
    return {"prec": "f32", "cfg": False, "callees": [], "main": main}


def t_reduce_beyond(k):
    """a buffer whose far elements are only touched by reductions (resize_dim candidates)"""
    sym = k % 2 == 1
    ext = "n + 2" if sym else "10"
    hi = "n" if sym else "8"
    body = [
        ["alloc", "acc", "f32", [ext], "DRAM"],
        ["for", "k", "0", hi, [["assign", "acc", ["k"], "0.0"]], "seq"],
        ["for", "k", "0", hi, [["reduce", "acc", ["k + 2"], "x[k]"]], "seq"],
        ["for", "k", "0", hi, [["assign", "y", ["k"], "acc[k]"]], "seq"],
    ]
    args = ([_arg("n", "size")] if sym else []) + [_arg("x", "tensor", dims=[hi]), _arg("y", "tensor", dims=[hi])]
    main = {"name": "foo", "args": args, "preds": [], "body": body}
    return {"prec": "f32", "cfg": False, "callees": [], "main": main}


def t_config_chain(k):
    """config write, read in a guard, unconditional overwrite; callee writing a config"""
    v1, v2 = 2 + k % 5, 1 + (k // 5) % 3
    setter = {"name": "setk", "args": [_arg("v", "index", range=(0, 7))], "preds": ["v >= 0 and v <= 7"], "body": [["wcfg", "CfgB", "k", "v"]]}
    body = [
        ["wcfg", "CfgA", "a", str(v1)],
        ["for", "i", "0", "8", [["if", "i < CfgA.a", [["assign", "x", ["i"], "1.0"]], []]], "seq"],
        ["wcfg", "CfgA", "a", str(v2)],
        ["call", "setk", [str(v2)]],
        ["for", "i", "0", "8", [["if", "i < CfgB.k", [["reduce", "x", ["i"], "CfgA.s"]], []]], "seq"],
        ["wcfg", "CfgA", "s", "2.0"],
    ]
    main = {"name": "foo", "args": [_arg("x", "tensor", dims=["8"])], "preds": [], "body": body}
    return {"prec": "f32", "cfg": True, "callees": [setter], "main": main}


def t_maybe_zero_bound(k):
    """statements next to symbolic quantities that can be zero (n / 4, n - 1, index argument)"""
    body = [
        ["alloc", "acc", "f32", ["1"], "DRAM"],
        ["assign", "acc", ["0"], "7.0"],
        ["for", "i", "0", "n", [["assign", "x", ["i"], "acc[0]"]], "seq"],
        ["if", "p > 0", [["assign", "x", ["0"], "x[0] + 1.0"]], []],
    ]
    main = {"name": "foo", "args": [_arg("n", "size"), _arg("p", "index", range=(0, 3)), _arg("x", "tensor", dims=["n"])], "preds": ["p >= 0 and p <= 3"], "body": body}
    return {"prec": "f32", "cfg": False, "callees": [], "main": main}


def t_masked_callee(k):
    """callee with an if without else; caller block with an else (near-miss for replace)"""
    masked = {
        "name": "masked_copy",
        "args": [_arg("n", "size"), _arg("dst", "window", dims=["8"], written=True), _arg("src", "window", dims=["8"], written=False)],
        "preds": ["n <= 8"],
        "body": [["for", "i", "0", "8", [["if", "i < n", [["assign", "dst", ["i"], "src[i]"]], []]], "seq"]],
    }
    body = [
        ["call", "masked_copy", ["n", "y[0:8]", "x[0:8]"]],
        ["for", "i", "0", "8", [["if", "i < n", [["assign", "y", ["i + 8"], "x[i + 8]"]], [["assign", "y", ["i + 8"], "0.0"]]]], "seq"],
    ]
    main = {"name": "foo", "args": [_arg("n", "size"), _arg("x", "tensor", dims=["16"]), _arg("y", "tensor", dims=["16"])], "preds": ["n <= 8"], "body": body}
    return {"prec": "f32", "cfg": False, "callees": [masked], "main": main}


def t_window_on_alloc(k):
    """allocation -> window statement -> the allocation is only used through the window afterwards
    (last-use / free placement), in straight-line code, in a branch or in a loop"""
    where = k % 4
    use = [["for", "i", "0", "4", [["assign", "y", ["i"], "w[i] + 1.0"]], "seq"]]
    core = [
        ["alloc", "xb", "f32", ["8"], "DRAM"],
        ["for", "i", "0", "8", [["assign", "xb", ["i"], "y[i % 4]"]], "seq"],
        ["window", "w", "xb", [["iv", str(k % 4), str(k % 4 + 4)]]],
    ]
    if where == 0:
        body = core + use
    elif where == 1:
        body = core + [["if", "n > 1", use, [["assign", "y", ["0"], "w[0]"]]], ["assign", "y", ["1"], "y[0]"]]
    elif where == 2:
        body = [["for", "r", "0", "n", core + [["window", "w2", "w", [["iv", "1", "3"]]]] + [["assign", "y", ["0"], "w2[1]"]] + use, "seq"]]
    else:
        # after the second-level window is taken only IT is mentioned
        body = core + [["window", "w2", "w", [["iv", "1", "3"]]], ["assign", "y", ["3"], "1.0"], ["for", "i", "0", "2", [["reduce", "y", ["i"], "w2[i]"]], "seq"], ["assign", "y", ["2"], "w2[0] + w2[1]"]]
    main = {"name": "foo", "args": [_arg("n", "size"), _arg("y", "tensor", dims=["4"])], "preds": [], "body": body}
    return {"prec": "f32", "cfg": False, "callees": [], "main": main}


def t_config_fields(k):
    """callee writing one config field; caller writing ANOTHER field of the same config"""
    seta = {"name": "seta", "args": [_arg("v", "index", range=(0, 7))], "preds": ["v >= 0 and v <= 7"], "body": [["wcfg", "CfgA", "a", "v"]]}
    body = [
        ["call", "seta", [str(1 + k % 3)]],
        ["wcfg", "CfgA", "b", str(2 + k % 4)],
        ["for", "i", "0", "8", [["if", "i < CfgA.a + CfgA.b", [["assign", "x", ["i"], "1.0"]], []]], "seq"],
        ["wcfg", "CfgA", "a", "5"],
    ]
    main = {"name": "foo", "args": [_arg("x", "tensor", dims=["8"])], "preds": [], "body": body}
    return {"prec": "f32", "cfg": True, "callees": [seta], "main": main}


def t_control_divmod(k):
    """floor division / modulo with possibly negative numerators and products of modulo terms in
    CONTROL positions: loop bounds, if conditions, call arguments, config writes"""
    c1, c2 = 3 + k % 3, 2 + (k // 3) % 3
    bump = {
        "name": "bump",
        "args": [_arg("dst", "window", dims=["8"], written=True), _arg("q", "index", range=(0, 7)), _arg("v", "window", dims=["1"], written=False)],
        "preds": ["q >= 0 and q <= 7"],
        "body": [["reduce", "dst", ["q"], "v[0]"]],
    }
    body = [
        ["for", "i", "0", "8", [
            ["for", "j", "0", f"4 - (i - {c1}) % 4", [["reduce", "y", ["j"], "x[i]"]], "seq"],
            ["call", "bump", ["y[0:8]", f"(i - {c1}) % 4", "x[i:i + 1]"]],
            ["if", f"(i - {c1}) / {c2} < 0", [["reduce", "y", ["7"], "1.0"]], [["reduce", "y", ["6"], "1.0"]]],
            ["for", "j", "0", f"2 * (n % 4) + 1", [["reduce", "y", ["5"], "x[j % 8]"]], "seq"],
            ["if", f"{c2} * ((n + i) % 3) > 2", [["reduce", "y", ["4"], "2.0"]], []],
        ], "seq"],
        ["wcfg", "CfgA", "a", f"(n - {c1 + 2}) % 4"],
        ["wcfg", "CfgA", "b", f"(n - 7) / {c2} + 4"],
        ["if", "CfgA.a + CfgA.b > 4", [["reduce", "y", ["3"], "1.0"]], []],
    ]
    main = {"name": "foo", "args": [_arg("n", "size"), _arg("x", "tensor", dims=["8"]), _arg("y", "tensor", dims=["8"])], "preds": ["n <= 8"], "body": body}
    return {"prec": "f32", "cfg": True, "callees": [bump], "main": main}


def t_config_scalar(k):
    """scalar and bool arguments next to config fields of the same type: bind_config candidates
    whose field is read later / earlier / written by a callee"""
    sett = {"name": "sett", "args": [_arg("v", "scalar")], "preds": [], "body": [["wcfg", "CfgB", "t", "v"]]}
    first = [["wcfg", "CfgA", "s", "s"]] if k % 2 else []
    body = first + [
        ["for", "i", "0", "8", [["assign", "x", ["i"], "s * y[i]"]], "seq"],
        ["if", "flag", [["assign", "x", ["0"], "s"]], [["assign", "x", ["1"], "r"]]],
        ["call", "sett", ["r"]],
        ["for", "i", "0", "8", [["reduce", "y", ["i"], "CfgA.s + CfgB.t"]], "seq"],
        ["if", "CfgA.flag", [["assign", "y", ["2"], "r + s"]], []],
    ]
    if (k // 2) % 2:
        body.append(["wcfg", "CfgA", "flag", "flag"])
    main = {"name": "foo", "args": [_arg("s", "scalar"), _arg("r", "scalar"), _arg("flag", "bool"), _arg("x", "tensor", dims=["8"]), _arg("y", "tensor", dims=["8"])], "preds": [], "body": body}
    return {"prec": "f32", "cfg": True, "callees": [sett], "main": main}


def t_same_name_inline(k):
    """callee whose loop iterator has the caller's iterator name and which receives the caller's
    iterator as an index argument: after inline two distinct variables called `i` meet in one
    index expression with equal coefficients"""
    off = k % 3
    sub = {
        "name": "shift4",
        "args": [_arg("k", "index", range=(0, 8)), _arg("dst", "window", dims=["4"], written=True), _arg("src", "window", dims=["16"], written=False)],
        "preds": ["k >= 0 and k <= 8"],
        "body": [["for", "i", "0", "4", [["assign", "dst", ["i"], f"src[i + k + {off}] + src[k + i + {off + 1}]"]], "seq"]],
    }
    body = [
        ["for", "i", "0", "3", [
            ["call", "shift4", ["i", "y[4 * i:4 * i + 4]", "x[0:16]"]],
            ["for", "j", "0", "2", [["for", "j", "0", "2", [["reduce", "y", ["12 + j"], "x[i + j]"]], "seq"]], "seq"],
        ], "seq"],
    ]
    main = {"name": "foo", "args": [_arg("x", "tensor", dims=["16"]), _arg("y", "tensor", dims=["16"])], "preds": [], "body": body}
    return {"prec": "f32", "cfg": False, "callees": [sub], "main": main}


def t_externs(k):
    """the same externs (relu, select, ...) used at different precisions by two procedures that end
    up in one compilation unit (the helper procedure is defined next to foo, not called by it)"""
    p2 = ["f64", "i8", "i32", "f64"][k % 4]
    e2 = "relu(src[i])" if p2 != "f64" else "relu(src[i]) + select(src[i], dst[i], src[i], dst[i]) + sin(src[i])"
    aux = {
        "name": "aux",
        "args": [_arg("dst", "tensor", prec=p2, dims=["8"], written=True), _arg("src", "tensor", prec=p2, dims=["8"], written=False)],
        "preds": [],
        "body": [["for", "i", "0", "8", [["assign", "dst", ["i"], e2]], "seq"]],
    }
    body = [
        ["for", "i", "0", "8", [["assign", "y", ["i"], "relu(x[i]) + select(x[i], y[i], x[i], 2.0)"]], "seq"],
        ["for", "i", "0", "8", [["reduce", "y", ["i"], "sin(x[i]) + fmaxf(x[i], y[i])"]], "seq"],
    ]
    main = {"name": "foo", "args": [_arg("x", "tensor", dims=["8"]), _arg("y", "tensor", dims=["8"])], "preds": [], "body": body}
    return {"prec": "f32", "cfg": False, "callees": [aux], "main": main}


def t_nested_window_point(k):
    """window of a window: the outer one starts at a non-zero row, the inner one fixes that
    dimension with a point; the buffer is written and read ONLY through such nested windows
    (directly and through a callee), so every location-set based check (resize/fold/reuse/stage)
    has to compose the two windows correctly"""
    lo = [4, 2, 3][k % 3]
    pt = [2, 1, 0][(k // 3) % 3]
    rd = {
        "name": "rowsum",
        "args": [_arg("dst", "window", dims=["1"], written=True), _arg("src", "window", dims=["8"], written=False)],
        "preds": [],
        "body": [["for", "i", "0", "8", [["reduce", "dst", ["0"], "src[i]"]], "seq"]],
    }
    body = [
        ["alloc", "buf", "f32", ["8", "8"], "DRAM"],
        ["window", "w", "buf", [["iv", str(lo), str(lo + 4)], ["iv", "0", "8"]]],
        ["for", "i", "0", "4", [["window", "ri", "w", [["pt", "i"], ["iv", "0", "8"]]], ["for", "j", "0", "8", [["assign", "ri", ["j"], "x[j] + y[i]"]], "seq"]], "seq"],
        ["window", "r", "w", [["pt", str(pt)], ["iv", "0", "8"]]],
        ["for", "j", "0", "8", [["reduce", "y", ["0"], "r[j]"]], "seq"],
        ["call", "rowsum", ["y[1:2]", f"w[{pt + 1}, 0:8]"]],
    ]
    main = {"name": "foo", "args": [_arg("x", "tensor", dims=["8"]), _arg("y", "tensor", dims=["4"])], "preds": [], "body": body}
    return {"prec": "f32", "cfg": False, "callees": [rd], "main": main}


def t_alloc_before_if_else(k):
    """allocation used in one branch of an if/else (sink_alloc / lift candidates), two adjacent
    if/else statements with the same condition (fuse), statements after them"""
    cond = ["n > 2", "m > 1"][k % 2]
    body = [
        ["alloc", "a", "f32", ["4"], "DRAM"],
        ["if", cond, [["assign", "a", ["0"], "x[0]"], ["assign", "y", ["0"], "a[0] + 1.0"]], [["assign", "y", ["1"], "1.0"], ["assign", "y", ["2"], "2.0"], ["assign", "y", ["3"], "x[1]"]]],
        ["if", cond, [["assign", "x", ["2"], "y[0]"]], [["assign", "x", ["3"], "y[1]"], ["reduce", "x", ["1"], "y[2]"]]],
        # statements nested deeper than one level inside the branches of an if (extract_subproc
        # derives the callee's assertions from the enclosing conditions)
        ["if", cond, [["for", "j", "0", "2", [["assign", "x", ["(j + n + m) % 4"], "y[0] + 1.0"]], "seq"]], [["for", "j", "0", "2", [["reduce", "x", ["(j + n + m) % 4"], "y[1]"]], "seq"]]],
        ["for", "i", "0", "n", [["if", cond, [["reduce", "y", ["0"], "x[i % 4]"]], [["reduce", "y", ["1"], "2.0"], ["reduce", "y", ["2"], "3.0"]]]], "seq"],
        ["assign", "y", ["3"], "y[3] + y[0]"],
    ]
    main = {"name": "foo", "args": [_arg("n", "size"), _arg("m", "size"), _arg("x", "tensor", dims=["4"]), _arg("y", "tensor", dims=["4"])], "preds": [], "body": body}
    return {"prec": "f32", "cfg": False, "callees": [], "main": main}


def t_window_var_to_callee(k):
    """an argument that the caller never writes directly: a window statement on it, and a callee
    that WRITES through a window expression over that window variable (const-qualification of the
    argument / window struct); first- and second-level windows"""
    second = k % 2 == 1
    by_name = (k // 2) % 2 == 1
    wr = {
        "name": "fill2",
        "args": [_arg("dst", "window", dims=["2"], written=True), _arg("src", "window", dims=["2"], written=False)],
        "preds": [],
        "body": [["for", "i", "0", "2", [["assign", "dst", ["i"], "src[i] + 1.0"]], "seq"]],
    }
    body = [["window", "w", "x", [["iv", "2", "6"]]]]
    if by_name:
        # the alias itself (by name) is handed to the writing callee
        body += [["window", "r", "w" if second else "x", [["iv", "1", "3"]]], ["call", "fill2", ["r", "y[0:2]"]]]
    elif second:
        body += [["window", "r", "w", [["iv", "1", "4"]]], ["call", "fill2", ["r[0:2]", "y[0:2]"]]]
    else:
        body += [["call", "fill2", ["w[1:3]", "y[0:2]"]]]
    body += [["for", "i", "0", "4", [["reduce", "y", ["i"], "w[i]"]], "seq"]]
    main = {"name": "foo", "args": [_arg("x", "tensor", dims=["8"]), _arg("y", "tensor", dims=["4"])], "preds": [], "body": body}
    return {"prec": "f32", "cfg": False, "callees": [wr], "main": main}


def t_last_use_in_else(k):
    """heap buffers whose last use (in program order of their scope) lies only in the else-arm of
    an if, or in an else-arm inside a loop, or in a loop bound / if condition position of a later
    statement's body (placement of free)"""
    mem = ["DRAM", "MDRAM"][k % 2]
    inner = (k // 2) % 2 == 1
    use = [["for", "i", "0", "8", [["assign", "y", ["i"], "t[i] + u[7 - i]"]], "seq"]]
    ife = ["if", "n > 2", [["assign", "y", ["0"], "x[0]"]], use]
    body = [
        ["alloc", "t", "f32", ["8"], mem],
        ["alloc", "u", "f32", ["8"], mem],
        ["for", "i", "0", "8", [["assign", "t", ["i"], "x[i]"], ["assign", "u", ["i"], "x[i] + 1.0"]], "seq"],
        ["assign", "y", ["1"], "u[1]"],
    ]
    body += [["for", "r", "0", "2", [ife], "seq"]] if inner else [ife]
    body += [["assign", "y", ["2"], "y[2] + 1.0"]]
    main = {"name": "foo", "args": [_arg("n", "size"), _arg("x", "tensor", dims=["8"]), _arg("y", "tensor", dims=["8"])], "preds": [], "body": body}
    return {"prec": "f32", "cfg": False, "callees": [], "main": main}


def t_name_collision(k):
    """a variable literally called a_1 next to two distinct variables called a (an outer one and a
    shadowing one in a loop / a callee local brought in by inline), in both declaration orders"""
    order = k % 2
    decl_a = [["alloc", "a", "f32", ["4"], "DRAM"], ["for", "i", "0", "4", [["assign", "a", ["i"], "x[i]"]], "seq"]]
    decl_a1 = [["alloc", "a_1", "f32", ["4"], "DRAM"], ["for", "i", "0", "4", [["assign", "a_1", ["i"], "x[i] + 1.0"]], "seq"]]
    sub = {
        "name": "addt",
        "args": [_arg("dst", "window", dims=["4"], written=True), _arg("src", "window", dims=["4"], written=False)],
        "preds": [],
        "body": [["alloc", "a", "f32", [], "DRAM"], ["assign", "a", [], "2.0"], ["for", "i", "0", "4", [["reduce", "dst", ["i"], "src[i] * a"]], "seq"]],
    }
    inner = ["for", "i", "0", "4", [["alloc", "a", "f32", [], "DRAM"], ["assign", "a", [], "x[i] * 2.0"], ["assign", "y", ["i"], "a + a_1[i]"]], "seq"]
    body = (decl_a + decl_a1 if order == 0 else decl_a1 + decl_a) + [inner, ["call", "addt", ["y[0:4]", "a[0:4]"]], ["reduce", "y", ["0"], "a[0] + a_1[1]"]]
    main = {"name": "foo", "args": [_arg("x", "tensor", dims=["4"]), _arg("y", "tensor", dims=["4"])], "preds": [], "body": body}
    return {"prec": "f32", "cfg": False, "callees": [sub], "main": main}


TEMPLATES = [t_window_on_alloc, t_config_fields, t_control_divmod, t_window_of_alloc, t_else_then_more, t_dependent_alloc, t_rmw_prefix, t_triangular_alloc, t_reduce_beyond, t_config_chain, t_maybe_zero_bound, t_masked_callee, t_config_scalar, t_same_name_inline, t_externs, t_nested_window_point, t_alloc_before_if_else, t_window_var_to_callee, t_last_use_in_else, t_name_collision]


def templates():
    return st.tuples(st.integers(0, len(TEMPLATES) - 1), st.integers(0, 59)).map(lambda t: TEMPLATES[t[0]](t[1]))


def programs_or_templates(pct=25, **opts):
    """mostly grammar programs, `pct` % templates"""
    from .programs import programs

    n = max(1, round(100 / max(1, pct)) - 1)
    return st.one_of(templates(), *[programs(**opts) for _ in range(n)])


def single_step_cases(op_names, val, params=(0, 1), sites=4, variants=((0, 0), (1, 1), (2, 5), (3, 7)), extra=None):
    """every template x every op x the first `sites` candidate sites x a few parameter variants,
    as one-step schedules (JSON cases in the C01 format; `extra` appends per-step fields)"""
    ops = sorted(set(op_names))
    for ti, t in enumerate(TEMPLATES):
        for tk in params:
            prog = t(tk)
            for op in ops:
                for k1 in range(sites):
                    for k2, k3 in variants:
                        step = [op, k1, k2, k3] + list(extra or [])
                        yield {"prog": prog, "steps": [step], "val": val}


def distinct_step_cases(shard, nshards, op_names, val, params=(0, 1), grid=(8, 6, 8), cap=40, extra=None, groups=4):
    """every template x parameter x every DISTINCT call the op catalogue resolves on it
    (sched.distinct_steps), as one-step schedules.  Work is dealt out in two levels so that the
    (program build + enumeration) cost is not paid 16 times and no shard is stuck with one big
    program: programs go to `groups` groups of shards, the steps of a program are dealt round-robin
    to the members of its group.  (Use with run_systematic(..., presharded=True).)"""
    from .programs import build
    from .. import sched

    groups = max(1, min(groups, nshards))
    g, rank = shard % groups, shard // groups
    members = len([s for s in range(nshards) if s % groups == g])
    idx = -1
    for t in TEMPLATES:
        for tk in params:
            idx += 1
            if idx % groups != g:
                continue
            prog = t(tk)
            try:
                env, p = build(prog)
            except Exception:
                continue
            sctx = sched.SchedCtx(env, prog)
            for j, step in enumerate(sched.distinct_steps(p, op_names, sctx, grid, cap)):
                if j % members != rank:
                    continue
                yield {"prog": prog, "steps": [step + list(extra or [])], "val": val}
