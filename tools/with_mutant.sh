#!/bin/sh
# usage: tools/with_mutant.sh <patch-file|-e 'python-expr on source'> -- <command...>
# Copies /repo/src to a scratch dir, applies the patch (git apply style, paths relative to
# repo root), runs the command with PYTHONPATH pointing to the mutated copy, removes it.
set -e
PATCH="$1"; shift; [ "$1" = "--" ] && shift
D=$(mktemp -d /tmp/exo-mut-XXXXXX)
trap 'rm -rf "$D"' EXIT
mkdir -p "$D/src" && rsync -a --exclude __pycache__ /repo/src/ "$D/src/"
PATCH=$(readlink -f "$PATCH"); (cd "$D" && patch -s -p1 < "$PATCH")
VERIF_EVIDENCE_DIR="${VERIF_EVIDENCE_DIR:-/tmp/mutant-evidence}" PYTHONPATH="$D/src" "$@"
