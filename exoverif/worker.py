"""One shard of one property: python -m exoverif.worker PROP SHARD NSHARDS SEED TIER OUT [--replay FILE]"""
from __future__ import annotations

import importlib
import json
import os
import sys
import time


def main(argv):
    prop, shard, nshards, seed_, tier, out = argv[:6]
    shard, nshards, seed_ = int(shard), int(nshards), int(seed_)
    from .common import Ctx, Violation, try_case, shrink_case

    mod = importlib.import_module(f"exoverif.props.{prop.lower()}")
    ctx = Ctx(prop, shard, nshards, seed_, tier, out)
    if len(argv) > 6 and argv[6] == "--replay":
        os.environ["VERIF_NO_EXCLUDE"] = "1"
        # replay mode: run given cases (JSON list of {"name","case"}) without Hypothesis
        items = json.load(open(argv[7]))
        res = []
        for it in items:
            v = try_case_strict(mod, it["case"])
            res.append(
                {
                    "name": it["name"],
                    "failed": v is not None,
                    "sig": getattr(v, "sig", None),
                    "detail": getattr(v, "detail", None),
                }
            )
        ctx.extra["replays"] = res
        ctx.done = True
        ctx.flush()
        return 0
    mod.run(ctx)
    # minimise one representative per failure bucket
    budget = 25.0 if tier == "quick" else 90.0
    seen = set()
    for f in sorted(ctx.failures, key=lambda f: f["size"]):
        if f["key"] in seen:
            continue
        seen.add(f["key"])
        kind = f["sig"]

        def same(c, kind=kind):
            v = try_case(mod.check_case, c)
            return v is not None and v.sig == kind

        if getattr(mod, "SHRINK", True) and same(f["case"]):
            small, steps = shrink_case(f["case"], same, budget / max(1, len(ctx._fail_buckets)))
            v = try_case(mod.check_case, small)
            if v is not None:
                f["case"], f["detail"], f["shrink_steps"] = small, v.detail, steps
                f["size"] = len(json.dumps(small, default=str))
            f["reproduced"] = True
        else:
            f["reproduced"] = same(f["case"])
    ctx.done = True
    ctx.flush()
    return 0


def try_case_strict(mod, case):
    from .common import Violation, Skip

    try:
        mod.check_case(case)
    except Violation as v:
        return v
    except Skip:
        return None
    return None


if __name__ == "__main__":
    sys.exit(main(sys.argv[1:]))
